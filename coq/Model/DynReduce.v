(* Model of the dynamic-logic layer of theory/body.py: DiamondFormula / BoxFormula.do_translate give the formula a fresh
   literal and tie it (make_equal) to the literal of a formula BUILT from the path by a case analysis on the path class
   (translate_ChoicePath, translate_SequencePath, translate_CheckPath, translate_KleeneStarPath, translate_SkipPath).
   What is built is REGENERATED from the source (Gen/FromDynamic.v: dia_reduce_gen, box_reduce_gen); this file gives those
   construction tables their meaning and proves
     reduce_valid : every construction is LDLf-equivalent to the modality it replaces (for ALL paths), and
     dyn_unique   : any assignment of truth values to (formula, state) pairs that violates none of the emitted constraints
                    (clause tables of Gen/FromTheory.v) gives every formula its LDLf value, provided iteration bodies consume
                    a step (the restriction stated in the property; without it the constraints have several solutions). *)
From Coq Require Import List Bool Arith ZArith Lia.
Require Import GenPrelude TheoryPrelude FromTheory DynPrelude FromDynamic LDL LDLext Leaf_theory.
Section DynReduce.
Variable A : Type.
Variable h : nat.
Variable T : trace A.
Notation path := (path A).
Notation ds := (ds A h T).
Notation run := (run A h T).
Notation ds_ext_h := (LDLext.ds_ext_h A h T).
Notation consuming := (LDLext.consuming A).
Notation wfp := (LDLext.wfp A).
Notation consuming_ext := (LDLext.consuming_ext A h T).
Notation consuming_final := (LDLext.consuming_final A h T).
Notation dia_iff := (LDLext.dia_iff A h T).
Notation box_iff := (LDLext.box_iff A h T).
Notation fin := (LDLext.fin h).
Notation fin_spec := (LDLext.fin_spec h).
Notation star_dia_eq := (LDLext.star_dia_eq A h T).
Notation star_box_eq := (LDLext.star_box_eq A h T).
Notation bool_eq_iff := LDLext.bool_eq_iff.
Inductive bf := FAtom (a : A) | FConst (b : bool) | FNeg (f : bf) | FBool (op : boolop) (f g : bf) | FNext (f : bf) (n : nat) (weak : bool)
              | FDia (p : path) (f : bf) | FBox (p : path) (f : bf).
Fixpoint bsat (f : bf) : nat -> bool :=
  match f with
  | FAtom a => fun k => T k a
  | FConst b => fun _ => b
  | FNeg g => fun k => negb (bsat g k)
  | FBool op f g => fun k => bool_spec op (bsat f k) (bsat g k)
  | FNext g n w => fun k => if k + n <=? h then bsat g (k + n) else w
  | FDia p g => ds p (bsat g)
  | FBox p g => fun k => negb (ds p (fun j => negb (bsat g j)) k)
  end.
Definition tbf (t : tst A) : bf := match t with TAtom _ a => FAtom a | TConst _ b => FConst b end.
Definition shape (p : path) : pshape :=
  match p with Skip _ => ShSkip | Test _ _ => ShCheck | Choice _ _ _ => ShChoice | Seq _ _ _ => ShSeq | Star _ _ => ShStar end.
Definition sel (p : path) (s : psel) : option path :=
  match s, p with
  | PSelLhs, Choice _ l _ | PSelLhs, Seq _ l _ => Some l
  | PSelRhs, Choice _ _ r | PSelRhs, Seq _ _ r => Some r
  | PSelArg, Star _ q => Some q
  | PSkipC, _ => Some (Skip _)
  | _, _ => None
  end.
(* what a construction expression denotes inside the method call  self = <modality>(p, rhs) *)
Fixpoint inst (self : bf) (p : path) (rhs : bf) (e : cexp) : option bf :=
  match e with
  | CSelf => Some self
  | CRhs => Some rhs
  | CTest => match p with Test _ t => Some (tbf t) | _ => None end
  | CDia s f => match sel p s, inst self p rhs f with Some q, Some g => Some (FDia q g) | _, _ => None end
  | CBox s f => match sel p s, inst self p rhs f with Some q, Some g => Some (FBox q g) | _, _ => None end
  | CBool op a b => match inst self p rhs a, inst self p rhs b with Some x, Some y => Some (FBool op x y) | _, _ => None end
  | CNeg a => option_map FNeg (inst self p rhs a)
  | CNext a n w => option_map (fun x => FNext x n w) (inst self p rhs a)
  | CConst b => Some (FConst b)
  end.
Definition reduce (f : bf) : option bf :=
  match f with
  | FDia p g => inst f p g (dia_reduce_gen (shape p))
  | FBox p g => inst f p g (box_reduce_gen (shape p))
  | _ => None
  end.

(* ---- every regenerated construction is equivalent to the modality it stands for ---- *)
Lemma fin_formula k : bsat (FNeg (FNext (FConst true) 1 false)) k = fin k.
Proof. cbn [bsat]. unfold fin. now destruct (k + 1 <=? h). Qed.
Lemma tbf_val t k : bsat (tbf t) k = tval A T t k.
Proof. destruct t; reflexivity. Qed.
Lemma skip_guard k : (k + 1 <=? h) = (k <? h).
Proof. destruct (Nat.leb_spec (k + 1) h), (Nat.ltb_spec k h); try reflexivity; lia. Qed.
Theorem reduce_valid : forall f g, reduce f = Some g -> forall k, k <= h -> bsat g k = bsat f k.
Proof.
  intros f g R k Hk. destruct f as [a|b|f0|op f1 f2|f0 n w|p f0|p f0]; try discriminate; cbn [reduce] in R.
  - (* diamond *)
    destruct p as [|t|l r|l r|q]; cbn in R; injection R as <-; cbn [bsat bool_spec].
    + cbn [LDL.ds]. rewrite skip_guard. replace (k + 1) with (S k) by lia. now destruct (k <? h).
    + cbn [LDL.ds]. now rewrite tbf_val.
    + cbn [LDL.ds]. apply orb_comm.
    + reflexivity.
    + rewrite (star_dia_eq q (bsat f0) k Hk). unfold fin. now destruct (k + 1 <=? h), (bsat f0 k).
  - (* box *)
    destruct p as [|t|l r|l r|q]; cbn in R; injection R as <-; cbn [bsat bool_spec].
    + cbn [LDL.ds]. rewrite skip_guard. replace (k + 1) with (S k) by lia. destruct (k <? h); cbn; [now rewrite negb_involutive|reflexivity].
    + cbn [LDL.ds]. rewrite tbf_val. now destruct (tval A T t k), (bsat f0 k).
    + cbn [LDL.ds]. rewrite negb_orb. apply andb_comm.
    + cbn [LDL.ds]. f_equal. apply ds_ext_h; [exact Hk|]. intros j _. now rewrite negb_involutive.
    + rewrite (star_box_eq q (bsat f0) k Hk). unfold fin. now destruct (k + 1 <=? h), (bsat f0 k).
Qed.
(* &final of the &del grammar is built as [skip]false *)
Theorem del_final_valid : forall k, k <= h ->
  option_map (fun g => bsat g k) (inst (FConst false) (Skip _) (FConst false) del_final_gen) = Some (h <=? k).
Proof.
  intros k Hk. unfold del_final_gen. cbn [inst sel option_map bsat LDL.ds negb]. f_equal. destruct (Nat.ltb_spec k h), (Nat.leb_spec h k); cbn; try reflexivity; lia.
Qed.

(* ---- well-formed formulas: iteration bodies consume a step ---- *)
Fixpoint wf (f : bf) : bool :=
  match f with
  | FAtom _ | FConst _ => true
  | FNeg g => wf g
  | FBool _ a b => wf a && wf b
  | FNext g _ _ => wf g
  | FDia p g | FBox p g => wfp p && wf g
  end.
Lemma tbf_wf t : wf (tbf t) = true.  Proof. now destruct t. Qed.
Lemma reduce_wf f g : reduce f = Some g -> wf f = true -> wf g = true.
Proof.
  intros R W. destruct f as [a|b|f0|op f1 f2|f0 n w|p f0|p f0]; try discriminate; cbn [reduce] in R;
    destruct p as [|t|l r|l r|q]; cbn in R; injection R as <-; cbn [wf wfp] in *; rewrite ?tbf_wf;
    repeat match goal with H : _ && _ = true |- _ => apply andb_true_iff in H as [? ?] end;
    repeat match goal with H : ?x = true |- context [?x] => rewrite H end; reflexivity.
Qed.

(* ---- uniqueness: the constraints emitted per node determine the value of every formula ---- *)
Variable v : bf -> nat -> bool.
Definition asg (lit lhs rhs : bool) : lvar -> bool :=
  fun x => match x with Llit => lit | Llhs => lhs | Lrhs => rhs | Lpre => false | La => lit | Lb => rhs end.
Definition node_ok (f : bf) (k : nat) : Prop :=
  match f with
  | FAtom a => v f k = T k a                                   (* literal of the symbolic atom; the false literal if absent *)
  | FConst b => v f k = b
  | FNeg g => v f k = negb (v g k)                             (* Negation.do_translate: the negated literal of the argument *)
  | FBool op a b => holds (asg (v f k) (v a k) (v b k)) (boolean_clauses_gen op) = true
  | FNext g n w =>
      match next_inside_gen k n h, next_target_gen k n with
      | Some true, Some t => v f k = v g (Z.to_nat t)
      | Some false, _ => v f k = next_placeholder_value_gen w
      | _, _ => False
      end
  | FDia _ _ | FBox _ _ =>                                      (* fresh literal made equal to the literal of the construction *)
      match reduce f with Some g => holds (asg (v f k) false (v g k)) make_equal_cl_gen = true | None => False end
  end.
Hypothesis Ok : forall f k, wf f = true -> k <= h -> node_ok f k.
Lemma eqb_true a b : Bool.eqb a b = true -> a = b.  Proof. destruct a, b; cbn; congruence. Qed.
Lemma v_bool op a b k : wf (FBool op a b) = true -> k <= h -> v (FBool op a b) k = bool_spec op (v a k) (v b k).
Proof. intros W Hk. pose proof (Ok _ k W Hk) as N. cbn [node_ok] in N. rewrite boolean_clauses_spec in N. now apply eqb_true in N. Qed.
Lemma v_neg g k : wf (FNeg g) = true -> k <= h -> v (FNeg g) k = negb (v g k).
Proof. intros W Hk. exact (Ok _ k W Hk). Qed.
Lemma v_const b k : k <= h -> v (FConst b) k = b.
Proof. intros Hk. exact (Ok (FConst b) k eq_refl Hk). Qed.
Lemma v_tbf t k : k <= h -> v (tbf t) k = tval A T t k.
Proof. intros Hk. destruct t as [a|b]; [exact (Ok (FAtom a) k eq_refl Hk)|exact (Ok (FConst b) k eq_refl Hk)]. Qed.
Lemma v_next g n w k : wf g = true -> k <= h -> v (FNext g n w) k = if k + n <=? h then v g (k + n) else w.
Proof.
  intros W Hk. pose proof (Ok (FNext g n w) k W Hk) as N. cbn [node_ok] in N.
  destruct (next_guards_spec k n h) as (E1 & E2). rewrite E1, E2 in N. destruct (k + n <=? h).
  - rewrite N. f_equal. lia.
  - rewrite N. now destruct w.
Qed.
Lemma v_red f g k : reduce f = Some g -> wf f = true -> k <= h -> v f k = v g k.
Proof.
  intros R W Hk. pose proof (Ok f k W Hk) as N.
  destruct f as [a|b|f0|op f1 f2|f0 n w|p f0|p f0]; try discriminate; cbn [node_ok] in N; rewrite R in N;
    rewrite make_equal_spec in N; now apply eqb_true in N.
Qed.
Lemma v_fin k : k <= h -> v (FNeg (FNext (FConst true) 1 false)) k = fin k.
Proof.
  intros Hk. rewrite v_neg, v_next by (reflexivity || exact Hk). unfold fin. destruct (k + 1 <=? h) eqn:L; [|reflexivity].
  rewrite v_const; [reflexivity|]. apply Nat.leb_le in L. lia.
Qed.
Lemma dia_val p : wfp p = true -> forall g, wf g = true -> forall k, k <= h -> v (FDia p g) k = ds p (fun j => v g j) k.
Proof.
  induction p as [|t|l IHl r IHr|l IHl r IHr|q IHq]; cbn [wfp]; intros Wp g Wg k Hk.
  - rewrite (v_red (FDia (Skip _) g) (FNext g 1 false) k eq_refl) by (cbn; rewrite ?Wg; reflexivity || exact Hk).
    rewrite v_next by assumption. cbn [LDL.ds]. rewrite skip_guard. replace (k + 1) with (S k) by lia. now destruct (k <? h).
  - rewrite (v_red (FDia (Test _ t) g) (FBool OpAnd (tbf t) g) k eq_refl) by (cbn; rewrite ?Wg; reflexivity || exact Hk).
    rewrite v_bool by (cbn; rewrite ?tbf_wf, ?Wg; reflexivity || exact Hk). rewrite v_tbf by exact Hk. reflexivity.
  - apply andb_true_iff in Wp as [Wl Wr].
    rewrite (v_red (FDia (Choice _ l r) g) (FBool OpOr (FDia r g) (FDia l g)) k eq_refl) by (cbn; rewrite ?Wl, ?Wr, ?Wg; reflexivity || exact Hk).
    rewrite v_bool by (cbn; rewrite ?Wl, ?Wr, ?Wg; reflexivity || exact Hk).
    rewrite (IHl Wl g Wg k Hk), (IHr Wr g Wg k Hk). cbn [LDL.ds bool_spec]. apply orb_comm.
  - apply andb_true_iff in Wp as [Wl Wr].
    rewrite (v_red (FDia (Seq _ l r) g) (FDia l (FDia r g)) k eq_refl) by (cbn; rewrite ?Wl, ?Wr, ?Wg; reflexivity || exact Hk).
    rewrite (IHl Wl (FDia r g)) by (cbn; rewrite ?Wr, ?Wg; reflexivity || exact Hk). cbn [LDL.ds].
    apply ds_ext_h; [exact Hk|]. intros j Hj. apply IHr; [exact Wr|exact Wg|lia].
  - apply andb_true_iff in Wp as [Cq Wq].
    set (self := FDia (Star _ q) g). assert (wf self = true) as Ws by (cbn; now rewrite Cq, Wq, Wg).
    set (c := fun j => v g j).
    (* strong induction on the distance to the end of the trace *)
    remember (h - k) as d eqn:Hd. revert k Hk Hd. induction d as [d IHd] using lt_wf_ind. intros k Hk Hd.
    rewrite (star_dia_eq q c k Hk).
    rewrite (v_red self (FBool OpAnd (FBool OpRImp (FNeg (FNext (FConst true) 1 false)) g) (FBool OpOr g (FDia q self))) k eq_refl Ws Hk).
    assert (wf (FDia q self) = true) as Wqs by (cbn [wf]; now rewrite Wq, Ws).
    rewrite !v_bool by (cbn [wf]; rewrite ?Wg, ?Wq, ?Ws; reflexivity || exact Hk). rewrite (v_fin k Hk).
    rewrite (IHq Wq self Ws k Hk). cbn [bool_spec]. fold (c k).
    rewrite (consuming_ext q Cq (fun j => v self j) (ds (Star _ q) c) k Hk).
    + now destruct (fin k), (c k).
    + intros j Hj. apply (IHd (h - j)); lia.
Qed.
Lemma box_val p : wfp p = true -> forall g, wf g = true -> forall k, k <= h -> v (FBox p g) k = negb (ds p (fun j => negb (v g j)) k).
Proof.
  induction p as [|t|l IHl r IHr|l IHl r IHr|q IHq]; cbn [wfp]; intros Wp g Wg k Hk.
  - rewrite (v_red (FBox (Skip _) g) (FNext g 1 true) k eq_refl) by (cbn; rewrite ?Wg; reflexivity || exact Hk).
    rewrite v_next by assumption. cbn [LDL.ds]. rewrite skip_guard. replace (k + 1) with (S k) by lia.
    destruct (k <? h); cbn; [now rewrite negb_involutive|reflexivity].
  - rewrite (v_red (FBox (Test _ t) g) (FBool OpRImp (tbf t) g) k eq_refl) by (cbn; rewrite ?Wg; reflexivity || exact Hk).
    rewrite v_bool by (cbn; rewrite ?tbf_wf, ?Wg; reflexivity || exact Hk). rewrite v_tbf by exact Hk. cbn [LDL.ds bool_spec].
    now destruct (tval A T t k), (v g k).
  - apply andb_true_iff in Wp as [Wl Wr].
    rewrite (v_red (FBox (Choice _ l r) g) (FBool OpAnd (FBox r g) (FBox l g)) k eq_refl) by (cbn; rewrite ?Wl, ?Wr, ?Wg; reflexivity || exact Hk).
    rewrite v_bool by (cbn; rewrite ?Wl, ?Wr, ?Wg; reflexivity || exact Hk).
    rewrite (IHl Wl g Wg k Hk), (IHr Wr g Wg k Hk). cbn [LDL.ds bool_spec]. rewrite negb_orb. apply andb_comm.
  - apply andb_true_iff in Wp as [Wl Wr].
    rewrite (v_red (FBox (Seq _ l r) g) (FBox l (FBox r g)) k eq_refl) by (cbn; rewrite ?Wl, ?Wr, ?Wg; reflexivity || exact Hk).
    rewrite (IHl Wl (FBox r g)) by (cbn; rewrite ?Wr, ?Wg; reflexivity || exact Hk). cbn [LDL.ds]. f_equal.
    apply ds_ext_h; [exact Hk|]. intros j Hj. rewrite (IHr Wr g Wg j) by lia. apply negb_involutive.
  - apply andb_true_iff in Wp as [Cq Wq].
    set (self := FBox (Star _ q) g). assert (wf self = true) as Ws by (cbn; now rewrite Cq, Wq, Wg).
    set (c := fun j => v g j).
    remember (h - k) as d eqn:Hd. revert k Hk Hd. induction d as [d IHd] using lt_wf_ind. intros k Hk Hd.
    change (fun j => negb (v g j)) with (fun j => negb (c j)). rewrite (star_box_eq q c k Hk).
    rewrite (v_red self (FBool OpAnd (FBool OpRImp (FNeg (FNext (FConst true) 1 false)) g) (FBool OpAnd g (FBox q self))) k eq_refl Ws Hk).
    assert (wf (FBox q self) = true) as Wqs by (cbn [wf]; now rewrite Wq, Ws).
    rewrite !v_bool by (cbn [wf]; rewrite ?Wg, ?Wq, ?Ws; reflexivity || exact Hk). rewrite (v_fin k Hk).
    rewrite (IHq Wq self Ws k Hk). cbn [bool_spec]. fold (c k).
    rewrite (consuming_ext q Cq (fun j => negb (v self j)) (fun i => negb (negb (ds (Star _ q) (fun j => negb (c j)) i))) k Hk).
    + now destruct (fin k), (c k).
    + intros j Hj. f_equal. apply (IHd (h - j)); lia.
Qed.
Theorem dyn_unique : forall f, wf f = true -> forall k, k <= h -> v f k = bsat f k.
Proof.
  induction f as [a|b|g IH|op a IHa b IHb|g IH n w|p g IH|p g IH]; cbn [wf]; intros W k Hk.
  - exact (Ok (FAtom a) k eq_refl Hk).
  - now apply v_const.
  - rewrite v_neg by assumption. cbn [bsat]. now rewrite IH.
  - apply andb_true_iff in W as [Wa Wb]. rewrite v_bool by (cbn; rewrite ?Wa, ?Wb; reflexivity || exact Hk). cbn [bsat]. now rewrite IHa, IHb.
  - rewrite v_next by assumption. cbn [bsat]. destruct (k + n <=? h) eqn:L; [|reflexivity]. apply IH; [exact W|]. now apply Nat.leb_le.
  - apply andb_true_iff in W as [Wp Wg]. rewrite (dia_val p Wp g Wg k Hk). cbn [bsat]. apply ds_ext_h; [exact Hk|]. intros j Hj. apply IH; [exact Wg|lia].
  - apply andb_true_iff in W as [Wp Wg]. rewrite (box_val p Wp g Wg k Hk). cbn [bsat]. f_equal. apply ds_ext_h; [exact Hk|]. intros j Hj. f_equal. apply IH; [exact Wg|lia].
Qed.
End DynReduce.
(* non-vacuity: the LDLf semantics itself violates none of the constraints (for every formula, well-formed or not) *)
Theorem dyn_semantics_is_a_solution (A : Type) (h : nat) (T : trace A) : forall f k, k <= h -> node_ok A h T (bsat A h T) f k.
Proof.
  intros f k Hk. destruct f as [a|b|g|op a b|g n w|p g|p g]; cbn [node_ok bsat]; try reflexivity.
  - rewrite boolean_clauses_spec. cbn [asg]. now destruct (bool_spec op (bsat A h T a k) (bsat A h T b k)).
  - destruct (next_guards_spec k n h) as (E1 & E2). rewrite E1, E2. destruct (k + n <=? h); [f_equal; lia|now destruct w].
  - assert (exists g', reduce A (FDia A p g) = Some g') as [g' R] by (destruct p; cbn; eauto).
    rewrite R, make_equal_spec. cbn [asg]. rewrite (reduce_valid A h T _ _ R k Hk). cbn [bsat]. now destruct (ds A h T p (bsat A h T g) k).
  - assert (exists g', reduce A (FBox A p g) = Some g') as [g' R] by (destruct p; cbn; eauto).
    rewrite R, make_equal_spec. cbn [asg]. rewrite (reduce_valid A h T _ _ R k Hk). cbn [bsat]. now destruct (negb (ds A h T p (fun j => negb (bsat A h T g j)) k)).
Qed.
(* the dynamic formulas of the specification (Spec/LDL.v: dform, dsat - what the extracted oracle evaluates) as the formula
   objects create_dynamic_formula builds; &final becomes [skip]false (del_final_gen) *)
Fixpoint emb (A : Type) (d : dform A) : bf A :=
  match d with
  | DAtom _ a => FAtom A a
  | DConst _ b => FConst A b
  | DFinal _ => FBox A (Skip A) (FConst A false)
  | DDia _ p d => FDia A p (emb A d)
  | DBox _ p d => FBox A p (emb A d)
  end.
Lemma emb_final_is_generated (A : Type) : inst A (FConst A false) (Skip A) (FConst A false) del_final_gen = Some (emb A (DFinal A)).
Proof. reflexivity. Qed.
Theorem emb_sat (A : Type) (h : nat) (T : trace A) : forall d k, k <= h -> bsat A h T (emb A d) k = dsat A h T d k.
Proof.
  induction d as [a|b| |p d IH|p d IH]; intros k Hk; cbn [emb bsat dsat]; try reflexivity.
  - cbn [LDL.ds]. destruct (Nat.ltb_spec k h), (Nat.leb_spec h k); cbn; try reflexivity; lia.
  - apply ds_ext_h; [exact Hk|]. intros j Hj. apply IH. lia.
  - f_equal. apply ds_ext_h; [exact Hk|]. intros j Hj. f_equal. apply IH. lia.
Qed.
