(* Model of telingo/theory/body.py + theory/__init__.py for the FULL operator set of &tel body formulas: Atom, BooleanConstant,
   Negation, BooleanFormula (& | <- -> <>), Previous / Next (n-fold, weak and strong), Initially, TelFormulaP (since / trigger, with and
   without left operand), TelFormulaN (until / release, with and without left operand, with the deferred next of set_future).
   The operational model (per-(formula, step) cache with a done flag, fresh choice atoms, clause groups, external placeholders for
   next formulas beyond the horizon, the pending list re-processed when the horizon grows) is generic in the formula class: every
   class is given by the list of (formula, step) pairs it translates first (deps), by what it does with their literals (combine: reuse
   a literal, or define a fresh choice atom by a clause group) and by the one-step meaning (sem).  The clause groups are the tables
   REGENERATED from the source (Gen/FromTheory.v: boolean_clauses_gen, tel_clauses_gen, make_equal_cl_gen).
   Theorems: the invariant is preserved by translate and across horizons, and at every stable point every cached literal has the LTLf
   value of its formula in every assignment that violates no emitted constraint (value_full / incremental_full). *)
From Coq Require Import List Bool Arith ZArith Lia.
Require Import GenPrelude TheoryPrelude FromTheory TEL TheorySem.
Import ListNotations.
Section BTF.
Variable A : Type.
Hypothesis A_eq_dec : forall a b : A, {a = b} + {a <> b}.
Inductive bf := At (a : A) | Cst (b : bool) | Neg (x : bf) | Bin (op : boolop) (x y : bf) | Pv (n : nat) (w : bool) (x : bf) | Ini (x : bf)
              | Nx (n : nat) (w : bool) (x : bf) | TN2 (u : bool) (l r : bf) | TN1 (u : bool) (r : bf) | TP2 (u : bool) (l r : bf) | TP1 (u : bool) (r : bf).
Lemma boolop_eq_dec : forall a b : boolop, {a = b} + {a <> b}.  Proof. decide equality. Defined.
Lemma bf_eq_dec : forall f g : bf, {f = g} + {f <> g}.
Proof. decide equality; try apply Bool.bool_dec; try apply Nat.eq_dec; apply boolop_eq_dec. Defined.
Opaque bf_eq_dec boolop_eq_dec.       (* transparent for extraction only *)
Definition trace := nat -> A -> bool.
(* ---------------- LTLf semantics at horizon h ---------------- *)
Fixpoint lsat (h : nat) (T : trace) (p : bf) : nat -> bool :=
  match p with
  | At a => fun k => T k a
  | Cst b => fun _ => b
  | Neg x => fun k => negb (lsat h T x k)
  | Bin op x y => fun k => bool_spec op (lsat h T x k) (lsat h T y k)
  | Pv n w x => fun k => if n <=? k then lsat h T x (k - n) else w
  | Ini x => fun _ => lsat h T x 0
  | Nx n w x => fun k => if k + n <=? h then lsat h T x (k + n) else w
  | TN2 u l r => fun k => fut u (lsat h T l) (lsat h T r) (h - k) k
  | TN1 u r => fun k => fut u (fun _ => u) (lsat h T r) (h - k) k
  | TP2 u l r => fun k => pst u (lsat h T l) (lsat h T r) k
  | TP1 u r => fun k => pst u (fun _ => u) (lsat h T r) k
  end.
(* ---------------- the formula classes: dependencies, one-step meaning ---------------- *)
Definition fut_of (f : bf) (u : bool) : bf := Nx 1 (negb u) f.          (* set_future(Next(self, 1, not until)) *)
Definition deps (f : bf) (k : nat) : list (bf * nat) :=
  match f with
  | At _ | Cst _ => []
  | Neg x => [(x, k)]
  | Bin _ x y => [(x, k); (y, k)]
  | Pv n _ x => if n <=? k then [(x, k - n)] else []
  | Ini x => [(x, 0)]
  | Nx n _ x => [(x, k + n)]
  | TN2 u l r => [(fut_of f u, k); (l, k); (r, k)]
  | TN1 u r => [(fut_of f u, k); (r, k)]
  | TP2 _ l r => match k with 0 => [(r, 0)] | S k' => [(f, k'); (l, k); (r, k)] end
  | TP1 _ r => match k with 0 => [(r, 0)] | S k' => [(f, k'); (r, k)] end
  end.
Definition outside (h : nat) (f : bf) (k : nat) : bool := match f with Nx n _ _ => negb (k + n <=? h) | _ => false end.
Definition nop (u : bool) : telop := if u then OpUntil else OpRelease.
Definition pop (u : bool) : telop := if u then OpSince else OpTrigger.
Definition sem (T : trace) (f : bf) (k : nat) (vs : list bool) : bool :=
  match f, vs with
  | At a, _ => T k a
  | Cst b, _ => b
  | Neg _, [x] => negb x
  | Bin op _ _, [x; y] => bool_spec op x y
  | Pv n w _, vs => if n <=? k then hd false vs else w
  | Ini _, [x] => x
  | Nx _ _ _, [x] => x
  | TN2 u _ _, [p; l; r] => tel_spec (nop u) true l r p
  | TN1 u _, [p; r] => tel_spec (nop u) false false r p
  | TP2 u _ _, vs => match k, vs with 0, [r] => r | S _, [p; l; r] => tel_spec (pop u) true l r p | _, _ => false end
  | TP1 u _, vs => match k, vs with 0, [r] => r | S _, [p; r] => tel_spec (pop u) false false r p | _, _ => false end
  | _, _ => false
  end.
(* ---------------- executable model of the translation ---------------- *)
Inductive var := VU (a : A) (k : nat) | VX (n : nat).
Definition lit := (bool * var)%type.
Definition nlit (l : lit) : lit := (negb (fst l), snd l).
Inductive kind := KChoice | KFalse | KExt (val : option bool).          (* KExt None = free external *)
Inductive event := ENew (n : nat) (kd : kind) (key : bf * nat)          (* an auxiliary atom allocated for an entry: choice atom or external placeholder *)
                 | EGroup (key : bf * nat) (cs : list (list lit))       (* a clause group emitted for an entry *)
                 | EFree (n : nat).                                      (* a resolved placeholder is made a free external *)
Record st := mkst { nxt : nat; kinds : list (nat * kind); cls : list (list lit);
                    cache : list ((bf * nat) * (lit * bool)); pending : list (nat * bf);
                    log : list event }.                                  (* ghost: what was emitted, newest first *)
Definition keyb (f : bf) (k : nat) (p : (bf * nat) * (lit * bool)) : bool := if bf_eq_dec (fst (fst p)) f then snd (fst p) =? k else false.
Definition lookup (s : st) f k : option (lit * bool) := option_map snd (find (keyb f k) (cache s)).
Definition set_cache s f k l d := mkst (nxt s) (kinds s) (cls s) (((f, k), (l, d)) :: cache s) (pending s) (log s).
Definition fresh s kd (key : bf * nat) : nat * st := (nxt s, mkst (S (nxt s)) ((nxt s, kd) :: kinds s) (cls s) (cache s) (pending s) (ENew (nxt s) kd key :: log s)).
Definition add_cls s (key : bf * nat) cs := mkst (nxt s) (kinds s) (cs ++ cls s) (cache s) (pending s) (match cs with [] => log s | _ => EGroup key cs :: log s end).
Definition add_pending s k f := mkst (nxt s) (kinds s) (cls s) (cache s) ((k, f) :: pending s) (log s).
Definition add_free s n := mkst (nxt s) (kinds s) (cls s) (cache s) (pending s) (EFree n :: log s).
Definition init : st := mkst 1 [(0, KFalse)] [] [] [] [].                     (* VX 0 is the false literal *)
Definition lfalse : lit := (true, VX 0).
Definition ltrue : lit := (false, VX 0).
Definition lconst (b : bool) : lit := if b then ltrue else lfalse.
(* the regenerated clause tables, instantiated with concrete literals *)
Definition lmap (l lhs rhs pre : lit) : lvar -> lit := fun x => match x with Llit => l | Llhs => lhs | Lrhs => rhs | Lpre => pre | La => l | Lb => rhs end.
Definition inst (m : lvar -> lit) (cs : list (list slit)) : list (list lit) := map (map (fun sl => match sl with P x => m x | N x => nlit (m x) end)) cs.
Inductive comb := CAlias (l : lit) | CDefine (cs : lit -> list (list lit)).
Definition combine (f : bf) (k : nat) (ls : list lit) : option comb :=
  match f, ls with
  | At a, [] => Some (CAlias (true, VU a k))
  | Cst b, [] => Some (CAlias (lconst b))
  | Neg _, [lx] => Some (CAlias (nlit lx))
  | Bin op _ _, [lx; ly] => Some (CDefine (fun l => inst (lmap l lx ly lfalse) (boolean_clauses_gen op)))
  | Pv n w _, ls => if n <=? k then match ls with [lx] => Some (CAlias lx) | _ => None end else match ls with [] => Some (CAlias (lconst w)) | _ => None end
  | Ini _, [lx] => Some (CAlias lx)
  | Nx _ _ _, [lx] => Some (CAlias lx)
  | TN2 u _ _, [lp; ll; lr] => Some (CDefine (fun l => inst (lmap l ll lr lp) (tel_clauses_gen (nop u) true)))
  | TN1 u _, [lp; lr] => Some (CDefine (fun l => inst (lmap l lfalse lr lp) (tel_clauses_gen (nop u) false)))
  | TP2 u _ _, ls => match k, ls with
                     | 0, [lr] => Some (CAlias lr)
                     | S _, [lp; ll; lr] => Some (CDefine (fun l => inst (lmap l ll lr lp) (tel_clauses_gen (pop u) true)))
                     | _, _ => None end
  | TP1 u _, ls => match k, ls with
                   | 0, [lr] => Some (CAlias lr)
                   | S _, [lp; lr] => Some (CDefine (fun l => inst (lmap l lfalse lr lp) (tel_clauses_gen (pop u) false)))
                   | _, _ => None end
  | _, _ => None
  end.
(* after the recursive calls the entry must still be unset: StepData.add_literal asserts this (an Internal outcome = None here) *)
Definition fin (s : st) (f : bf) (k : nat) (l : lit) (d : bool) (cs : list (list lit)) : option (lit * st) :=
  match lookup s f k with Some _ => None | None => Some (l, set_cache (add_cls s (f, k) cs) f k l d) end.
Fixpoint go (tr : bf -> nat -> st -> option (lit * st)) (ds : list (bf * nat)) (s : st) : option (list lit * st) :=
  match ds with
  | [] => Some ([], s)
  | (g, j) :: r => match tr g j s with None => None | Some (l1, s1) => match go tr r s1 with None => None | Some (ls, s2) => Some (l1 :: ls, s2) end end
  end.
Fixpoint translate (fuel h : nat) (f : bf) (k : nat) (s : st) : option (lit * st) :=
  match fuel with 0 => None | S fu =>
  match lookup s f k with
  | Some (l, true) => Some (l, s)
  | Some (l, false) =>
      match f with
      | Nx n w x =>
          if k + n <=? h then
            match translate fu h x (k + n) s with None => None | Some (lx, s1) =>
              Some (l, set_cache (let s2 := add_cls s1 (f, k) (inst (lmap l lfalse lx lfalse) make_equal_cl_gen) in match l with (_, VX e) => add_free s2 e | _ => s2 end) f k l true) end
          else Some (l, add_pending s k f)
      | _ => Some (l, s)
      end
  | None =>
      if outside h f k then
        let (e, s1) := fresh s (KExt (Some (match f with Nx _ w _ => w | _ => false end))) (f, k) in fin (add_pending s1 k f) f k (true, VX e) false []
      else
        match go (translate fu h) (deps f k) s with None => None | Some (ls, s1) =>
          match combine f k ls with
          | None => None
          | Some (CAlias l) => fin s1 f k l true []
          | Some (CDefine cs) => let (z, s2) := fresh s1 KChoice (f, k) in let l := (true, VX z) in fin s2 f k l true (cs l)
          end end
  end end.
(* Theory.translate for one horizon: roots are the (formula, step) pairs of the ground theory atoms; then the old pending list *)
Fixpoint run_list (fuel h : nat) (todo : list (nat * bf)) (s : st) : option st :=
  match todo with [] => Some s | (k, f) :: r => match translate fuel h f k s with None => None | Some (_, s1) => run_list fuel h r s1 end end.
Definition clear_pending (s : st) := mkst (nxt s) (kinds s) (cls s) (cache s) [] (log s).
Definition theory_translate (fuel h : nat) (roots : list (nat * bf)) (s : st) : option st :=
  run_list fuel h (rev (pending s) ++ roots) (clear_pending s).
(* ---------------- semantics of a state ---------------- *)
Definition ev (T : trace) (v : nat -> bool) (l : lit) : bool :=
  let b := match snd l with VU a k => T k a | VX n => v n end in if fst l then b else negb b.
Definition ok_cls T v (s : st) := forall b, In b (cls s) -> forallb (ev T v) b = false.
Definition is_placeholder (s : st) (e : nat) (w : bool) := exists n x k, lookup s (Nx n w x) k = Some ((true, VX e), false).
Definition ok_ext (v : nat -> bool) (s : st) := v 0 = false /\ forall e w, is_placeholder s e w -> v e = w.
Definition cached s f k l := exists d, lookup s f k = Some (l, d).
Definition all_cached s (ds : list (bf * nat)) (ls : list lit) := Forall2 (fun d l => cached s (fst d) (snd d) l) ds ls.
(* the invariant; todo = pending entries of the previous horizon that are still to be processed *)
Definition entry_ok (h : nat) (todo : list (nat * bf)) (s : st) (f : bf) (k : nat) (l : lit) (d : bool) : Prop :=
  k <= h /\
  ((d = true /\ outside h f k = false /\ exists ls, all_cached s (deps f k) ls /\
      forall T v, ok_cls T v s -> v 0 = false -> ev T v l = sem T f k (map (ev T v) ls))
   \/ (d = false /\ exists n w x e, f = Nx n w x /\ l = (true, VX e) /\
        (if k + n <=? h then In (k, f) todo else In (k, f) todo \/ In (k, f) (pending s)))).
Definition Inv h todo s := forall f k l d, lookup s f k = Some (l, d) -> entry_ok h todo s f k l d.

(* ---------------- clause tables mean what they should ----------------
   The three leaf lemmas about the REGENERATED tables are hypotheses of this section (discharged in Props/C03.v with the lemmas of
   Proofs/Leaf_theory.v), so that this file - whose definitions are extracted for the structural correspondence - compiles whatever the
   tables say; a change of the source that breaks a table breaks the property theorems, not the executable model. *)
Hypothesis boolean_clauses_spec : forall op v, holds v (boolean_clauses_gen op) = Bool.eqb (v Llit) (bool_spec op (v Llhs) (v Lrhs)).
Hypothesis tel_clauses_spec : forall op has v, holds v (tel_clauses_gen op has) = Bool.eqb (v Llit) (tel_spec op has (v Llhs) (v Lrhs) (v Lpre)).
Hypothesis make_equal_spec : forall v, holds v make_equal_cl_gen = Bool.eqb (v La) (v Lb).
Lemma ev_nlit T v l : ev T v (nlit l) = negb (ev T v l).
Proof. destruct l as [[|] x]; unfold ev, nlit; cbn; [reflexivity|now rewrite negb_involutive]. Qed.
Lemma ev_lconst T v b : v 0 = false -> ev T v (lconst b) = b.
Proof. intros V. destruct b; unfold ev, lconst, ltrue, lfalse; cbn; now rewrite V. Qed.
Lemma forallb_map_ X Y (g : X -> Y) (p : Y -> bool) (l : list X) : forallb p (map g l) = forallb (fun x => p (g x)) l.
Proof. induction l as [|x l IH]; cbn; [reflexivity|now rewrite IH]. Qed.
Lemma forallb_ext_ X (p q : X -> bool) (l : list X) : (forall x, p x = q x) -> forallb p l = forallb q l.
Proof. intros E. induction l as [|x l IH]; cbn; [reflexivity|now rewrite E, IH]. Qed.
Lemma inst_holds T v m cs : (forall b, In b (inst m cs) -> forallb (ev T v) b = false) -> holds (fun x => ev T v (m x)) cs = true.
Proof.
  intros O. unfold holds. apply forallb_forall. intros c Hc. apply negb_true_iff.
  rewrite <- (O (map (fun sl => match sl with P x => m x | N x => nlit (m x) end) c)); [|unfold inst; now apply in_map].
  rewrite forallb_map_. apply forallb_ext_. intros [x|x]; cbn [evl]; [reflexivity|now rewrite ev_nlit].
Qed.
Lemma eqb_true a b : Bool.eqb a b = true -> a = b.  Proof. destruct a, b; cbn; congruence. Qed.
Lemma bool_group_spec T v op l lx ly : (forall b, In b (inst (lmap l lx ly lfalse) (boolean_clauses_gen op)) -> forallb (ev T v) b = false) ->
  ev T v l = bool_spec op (ev T v lx) (ev T v ly).
Proof. intros O. apply inst_holds in O. rewrite boolean_clauses_spec in O. cbn [lmap] in O. now apply eqb_true. Qed.
Lemma tel_group_spec T v op has l ll lr lp : (forall b, In b (inst (lmap l ll lr lp) (tel_clauses_gen op has)) -> forallb (ev T v) b = false) ->
  ev T v l = tel_spec op has (ev T v ll) (ev T v lr) (ev T v lp).
Proof. intros O. apply inst_holds in O. rewrite tel_clauses_spec in O. cbn [lmap] in O. now apply eqb_true. Qed.
Lemma eq_group_spec T v l lx : (forall b, In b (inst (lmap l lfalse lx lfalse) make_equal_cl_gen) -> forallb (ev T v) b = false) -> ev T v l = ev T v lx.
Proof. intros O. apply inst_holds in O. rewrite make_equal_spec in O. cbn [lmap] in O. now apply eqb_true. Qed.
Lemma tel_spec_nolhs op l r p : tel_spec op false l r p = tel_spec op false false r p.
Proof. destruct op; reflexivity. Qed.
(* what combine builds has the one-step meaning of the class *)
Lemma combine_sem T v f k ls c : v 0 = false -> combine f k ls = Some c ->
  match c with
  | CAlias l0 => ev T v l0 = sem T f k (map (ev T v) ls)
  | CDefine cs => forall l, (forall b, In b (cs l) -> forallb (ev T v) b = false) -> ev T v l = sem T f k (map (ev T v) ls)
  end.
Proof.
  intros V C. destruct f as [a|b|x|op x y|n w x|x|n w x|u l r|u r|u l r|u r]; cbn [combine] in C.
  - destruct ls; [|discriminate]. inversion C; subst. reflexivity.
  - destruct ls; [|discriminate]. inversion C; subst. cbn [sem]. now apply ev_lconst.
  - destruct ls as [|lx [|? ?]]; try discriminate. inversion C; subst. cbn [sem map]. apply ev_nlit.
  - destruct ls as [|lx [|ly [|? ?]]]; try discriminate. inversion C; subst. intros l0 O. cbn [sem map]. now apply bool_group_spec.
  - cbn [sem]. destruct (n <=? k).
    + destruct ls as [|lx [|? ?]]; try discriminate. inversion C; subst. reflexivity.
    + destruct ls; [|discriminate]. inversion C; subst. now apply ev_lconst.
  - destruct ls as [|lx [|? ?]]; try discriminate. inversion C; subst. reflexivity.
  - destruct ls as [|lx [|? ?]]; try discriminate. inversion C; subst. reflexivity.
  - destruct ls as [|lp [|ll [|lr [|? ?]]]]; try discriminate. inversion C; subst. intros l0 O. cbn [sem map]. now apply tel_group_spec.
  - destruct ls as [|lp [|lr [|? ?]]]; try discriminate. inversion C; subst. intros l0 O. cbn [sem map]. rewrite <- (tel_spec_nolhs _ (ev T v lfalse)). now apply tel_group_spec.
  - destruct k as [|k'].
    + destruct ls as [|lr [|? ?]]; try discriminate. inversion C; subst. reflexivity.
    + destruct ls as [|lp [|ll [|lr [|? ?]]]]; try discriminate. inversion C; subst. intros l0 O. cbn [sem map]. now apply tel_group_spec.
  - destruct k as [|k'].
    + destruct ls as [|lr [|? ?]]; try discriminate. inversion C; subst. reflexivity.
    + destruct ls as [|lp [|lr [|? ?]]]; try discriminate. inversion C; subst. intros l0 O. cbn [sem map]. rewrite <- (tel_spec_nolhs _ (ev T v lfalse)). now apply tel_group_spec.
Qed.
(* ---------------- infrastructure ---------------- *)
Lemma keyb_true f k p : keyb f k p = true <-> fst p = (f, k).
Proof.
  destruct p as [[f' k'] ld]. unfold keyb. cbn. destruct (bf_eq_dec f' f) as [->|N].
  - rewrite Nat.eqb_eq. split; [now intros ->|]. intros E. now inversion E.
  - split; [discriminate|]. intros E. inversion E. contradiction.
Qed.
Lemma lookup_set_same s f k l d : lookup (set_cache s f k l d) f k = Some (l, d).
Proof. unfold lookup, set_cache. cbn [cache find]. assert (keyb f k ((f, k), (l, d)) = true) as -> by now apply keyb_true. reflexivity. Qed.
Lemma lookup_set_other s f k l d f' k' : (f', k') <> (f, k) -> lookup (set_cache s f k l d) f' k' = lookup s f' k'.
Proof.
  intros N. unfold lookup, set_cache. cbn [cache find]. destruct (keyb f' k' ((f, k), (l, d))) eqn:E; [|reflexivity].
  apply keyb_true in E. cbn in E. congruence.
Qed.
Lemma key_dec (f f' : bf) (k k' : nat) : {(f', k') = (f, k)} + {(f', k') <> (f, k)}.
Proof. destruct (bf_eq_dec f' f) as [->|N]; [destruct (Nat.eq_dec k' k) as [->|N]|]; [left; reflexivity|right; congruence|right; congruence]. Qed.
Record ext (s s' : st) : Prop := {
  ext_cache : forall f k l d, lookup s f k = Some (l, d) -> exists d', lookup s' f k = Some (l, d') /\ (d = true -> d' = true);
  ext_cls : forall b, In b (cls s) -> In b (cls s');
  ext_pending : forall p, In p (pending s) -> In p (pending s') }.
Lemma ext_refl s : ext s s.
Proof. split; eauto. Qed.
Lemma ext_trans a b c : ext a b -> ext b c -> ext a c.
Proof.
  intros [C1 L1 P1] [C2 L2 P2]. split; auto.
  intros f k l d E. destruct (C1 _ _ _ _ E) as [d1 [E1 H1]]. destruct (C2 _ _ _ _ E1) as [d2 [E2 H2]]. exists d2. auto.
Qed.
Lemma ext_cached s s' f k l : ext s s' -> cached s f k l -> cached s' f k l.
Proof. intros X [d E]. destruct (ext_cache _ _ X _ _ _ _ E) as [d' [E' _]]. now exists d'. Qed.
Lemma ext_all_cached s s' ds ls : ext s s' -> all_cached s ds ls -> all_cached s' ds ls.
Proof. intros X F. induction F; constructor; [now apply (ext_cached s s')|assumption]. Qed.
Lemma ext_ok_cls s s' T v : ext s s' -> ok_cls T v s' -> ok_cls T v s.
Proof. intros X O b Hb. apply O. now apply (ext_cls _ _ X). Qed.
Lemma entry_ok_ext h todo s s' f k l d : ext s s' -> entry_ok h todo s f k l d -> entry_ok h todo s' f k l d.
Proof.
  intros X [Hk EO]. split; [exact Hk|]. destruct EO as [[Hd [Ho [ls [Cs E]]]]|[Hd [n [w [x [e [Ef [El Pend]]]]]]]].
  - left. repeat split; auto. exists ls. split; [now apply (ext_all_cached s s')|]. intros T v O V. apply E; [now apply (ext_ok_cls s s')|exact V].
  - right. split; [exact Hd|]. exists n, w, x, e. repeat split; auto.
    destruct (k + n <=? h); [exact Pend|]. destruct Pend as [P|P]; [now left|right; now apply (ext_pending _ _ X)].
Qed.
Lemma Inv_update h todo s s' f k : Inv h todo s -> ext s s' ->
  (forall f' k' l d, (f', k') <> (f, k) -> lookup s' f' k' = Some (l, d) -> lookup s f' k' = Some (l, d)) ->
  (forall l d, lookup s' f k = Some (l, d) -> entry_ok h todo s' f k l d) ->
  Inv h todo s'.
Proof.
  intros I X Old New f' k' l d L. destruct (key_dec f f' k k') as [E|N].
  - inversion E; subst. now apply New.
  - apply (entry_ok_ext h todo s s'); [exact X|]. apply I. now apply Old.
Qed.
Lemma cls_set_add s key cs f k l d : cls (set_cache (add_cls s key cs) f k l d) = cs ++ cls s.
Proof. reflexivity. Qed.
Lemma ext_set_new s key f k l d cs : lookup s f k = None -> ext s (set_cache (add_cls s key cs) f k l d).
Proof.
  intros L. split.
  - intros f' k' l0 d0 E. destruct (key_dec f f' k k') as [Ek|N]; [inversion Ek; subst; congruence|].
    exists d0. split; [|auto]. rewrite lookup_set_other by exact N. exact E.
  - intros b Hb. rewrite cls_set_add. apply in_or_app. now right.
  - intros p Hp. exact Hp.
Qed.
Lemma fin_inv h todo s f k l d cs s' l' : Inv h todo s -> fin s f k l d cs = Some (l', s') ->
  (forall s'', ext s s'' -> s'' = set_cache (add_cls s (f, k) cs) f k l d -> entry_ok h todo s'' f k l d) ->
  l' = l /\ Inv h todo s' /\ ext s s' /\ cached s' f k l.
Proof.
  intros I F EO. unfold fin in F. destruct (lookup s f k) eqn:L; [discriminate|]. inversion F; subst l' s'. clear F.
  set (s' := set_cache (add_cls s (f, k) cs) f k l d).
  assert (ext s s') as X by now apply ext_set_new.
  split; [reflexivity|]. split; [|split; [exact X|exists d; apply lookup_set_same]].
  apply (Inv_update h todo s s' f k I X).
  - intros f' k' l0 d0 N E. unfold s' in E. rewrite lookup_set_other in E by exact N. exact E.
  - intros l0 d0 E. unfold s' in E. rewrite lookup_set_same in E. inversion E; subst. now apply EO.
Qed.
Lemma ok_cls_add T v s key cs f k l d : ok_cls T v (set_cache (add_cls s key cs) f k l d) -> forall b, In b cs -> forallb (ev T v) b = false.
Proof. intros O b Hb. apply O. rewrite cls_set_add. apply in_or_app. now left. Qed.
Lemma fresh_ext s kd key : ext s (snd (fresh s kd key)).
Proof. split; cbn; eauto. Qed.
Lemma add_pending_ext s k f : ext s (add_pending s k f).
Proof. split; cbn; eauto. Qed.
Lemma Inv_ext_same h todo s s' : Inv h todo s -> ext s s' -> (forall f k, lookup s' f k = lookup s f k) -> Inv h todo s'.
Proof. intros I X Same f k l d L. rewrite Same in L. apply (entry_ok_ext h todo s s' f k l d X). now apply I. Qed.
Lemma deps_bound h f k : k <= h -> outside h f k = false -> forall d, In d (deps f k) -> snd d <= h.
Proof.
  intros Hk Ho d Hd. destruct f as [a|b|x|op x y|n w x|x|n w x|u l r|u r|u l r|u r]; cbn [deps] in Hd.
  - destruct Hd.
  - destruct Hd.
  - destruct Hd as [<-|[]]. exact Hk.
  - destruct Hd as [<-|[<-|[]]]; exact Hk.
  - destruct (n <=? k); [destruct Hd as [<-|[]]; cbn; lia|destruct Hd].
  - destruct Hd as [<-|[]]. cbn. lia.
  - destruct Hd as [<-|[]]. cbn [outside] in Ho. apply negb_false_iff, Nat.leb_le in Ho. exact Ho.
  - destruct Hd as [<-|[<-|[<-|[]]]]; exact Hk.
  - destruct Hd as [<-|[<-|[]]]; exact Hk.
  - destruct k as [|k']; [destruct Hd as [<-|[]]; exact Hk|destruct Hd as [<-|[<-|[<-|[]]]]; cbn; lia].
  - destruct k as [|k']; [destruct Hd as [<-|[]]; exact Hk|destruct Hd as [<-|[<-|[]]]; cbn; lia].
Qed.

(* ---------------- preservation of the invariant by translate ---------------- *)
Lemma go_inv (tr : bf -> nat -> st -> option (lit * st)) h todo :
  (forall g j s l s', Inv h todo s -> j <= h -> tr g j s = Some (l, s') -> Inv h todo s' /\ ext s s' /\ cached s' g j l) ->
  forall ds s ls s', Inv h todo s -> (forall d, In d ds -> snd d <= h) -> go tr ds s = Some (ls, s') ->
  Inv h todo s' /\ ext s s' /\ all_cached s' ds ls.
Proof.
  intros Htr. induction ds as [|[g j] r IH]; intros s ls s' I Bd G; cbn [go] in G.
  - inversion G; subst. split; [exact I|]. split; [apply ext_refl|constructor].
  - destruct (tr g j s) as [[l1 s1]|] eqn:T1; [|discriminate]. destruct (go tr r s1) as [[ls' s2]|] eqn:G2; [|discriminate]. inversion G; subst.
    destruct (Htr g j s l1 s1 I (Bd (g, j) (or_introl eq_refl)) T1) as [I1 [X1 C1]].
    destruct (IH s1 ls' s' I1 (fun d Hd => Bd d (or_intror Hd)) G2) as [I2 [X2 C2]].
    split; [exact I2|]. split; [eapply ext_trans; eauto|]. constructor; [cbn; now apply (ext_cached s1 s')|exact C2].
Qed.
Lemma outside_is_next h f k : outside h f k = true -> exists n w x, f = Nx n w x /\ (k + n <=? h) = false.
Proof. destruct f; cbn [outside]; try discriminate. intros O. apply negb_true_iff in O. eauto. Qed.
Theorem translate_inv fuel h todo : forall f k s l s', Inv h todo s -> k <= h -> translate fuel h f k s = Some (l, s') ->
  Inv h todo s' /\ ext s s' /\ cached s' f k l.
Proof.
  induction fuel as [|fu IH]; intros f k s l s' I Hk Tr; [discriminate|]. cbn [translate] in Tr.
  destruct (lookup s f k) as [[l0 [|]]|] eqn:L.
  - (* cached and done *) inversion Tr; subst. split; [exact I|]. split; [apply ext_refl|now exists true].
  - (* cached, not done: a placeholder of a next formula *)
    destruct (I _ _ _ _ L) as [_ [[Hd _]|[_ [n [w [x [e [-> [-> Pend]]]]]]]]]; [discriminate|].
    destruct (k + n <=? h) eqn:R.
    + apply Nat.leb_le in R. destruct (translate fu h x (k + n) s) as [[lx s1]|] eqn:Tx; [|discriminate]. inversion Tr; subst l s'. clear Tr.
      destruct (IH x (k + n) s lx s1 I R Tx) as [I1 [X1 Cx]].
      set (cs := inst (lmap (true, VX e) lfalse lx lfalse) make_equal_cl_gen).
      set (s' := set_cache (add_free (add_cls s1 (Nx n w x, k) cs) e) (Nx n w x) k (true, VX e) true).
      destruct (ext_cache _ _ X1 _ _ _ _ L) as [d1 [L1 _]].
      assert (ext s1 s') as X'.
      { split.
        - intros f' k' l1 d0 E. destruct (key_dec (Nx n w x) f' k k') as [Ek|N].
          + inversion Ek; subst. rewrite L1 in E. inversion E; subst. exists true. split; [apply lookup_set_same|auto].
          + exists d0. split; [|auto]. unfold s'. now rewrite lookup_set_other by exact N.
        - intros b Hb. change (In b (cs ++ cls s1)). apply in_or_app. now right.
        - auto. }
      split; [|split; [eapply ext_trans; eauto|exists true; apply lookup_set_same]].
      apply (Inv_update h todo s1 s' (Nx n w x) k I1 X').
      * intros f' k' l1 d0 N E. unfold s' in E. now rewrite lookup_set_other in E by exact N.
      * intros l1 d0 E. unfold s' in E. rewrite lookup_set_same in E. inversion E; subst. split; [exact Hk|]. left.
        split; [reflexivity|]. split; [cbn [outside]; apply negb_false_iff; now apply Nat.leb_le|].
        exists [lx]. split; [constructor; [now apply (ext_cached s1 s')|constructor]|].
        intros T v O V. cbn [sem map]. apply eq_group_spec. intros c Hc. apply (ok_cls_add T v s1 (Nx n w x, k) cs (Nx n w x) k (true, VX e) true); [exact O|exact Hc].
    + inversion Tr; subst l s'. clear Tr. split; [|split; [apply add_pending_ext|exists false; exact L]].
      apply (Inv_update h todo s (add_pending s k (Nx n w x)) (Nx n w x) k I (add_pending_ext _ _ _)).
      * intros f' k' l1 d0 _ E. exact E.
      * intros l1 d0 E. change (lookup s (Nx n w x) k = Some (l1, d0)) in E. rewrite L in E. inversion E; subst.
        split; [exact Hk|]. right. split; [reflexivity|]. exists n, w, x, e. repeat split. rewrite R. right. cbn. now left.
  - (* not cached *)
    destruct (outside h f k) eqn:O.
    + (* a next formula beyond the horizon: external placeholder, kept pending *)
      destruct (outside_is_next h f k O) as [n [w [x [-> R]]]]. cbn [fresh] in Tr.
      set (s1 := mkst (S (nxt s)) ((nxt s, KExt (Some w)) :: kinds s) (cls s) (cache s) (pending s) (ENew (nxt s) (KExt (Some w)) (Nx n w x, k) :: log s)) in *.
      set (s2 := add_pending s1 k (Nx n w x)) in *.
      assert (ext s s2) as X2 by (split; cbn; eauto).
      assert (Inv h todo s2) as I2 by (apply (Inv_ext_same h todo s s2 I X2); reflexivity).
      destruct (fin_inv h todo s2 (Nx n w x) k _ _ _ _ _ I2 Tr) as [-> [I' [X' C']]].
      * intros s'' X'' _. split; [exact Hk|]. right. split; [reflexivity|]. exists n, w, x, (nxt s). repeat split.
        rewrite R. right. apply (ext_pending _ _ X''). cbn. now left.
      * split; [exact I'|]. split; [eapply ext_trans; eauto|exact C'].
    + (* the generic case: dependencies first, then reuse a literal or define a fresh one *)
      destruct (go (translate fu h) (deps f k) s) as [[ls s1]|] eqn:G; [|discriminate].
      destruct (go_inv (translate fu h) h todo (fun g j s0 l1 s1' I0 Hj T0 => IH g j s0 l1 s1' I0 Hj T0) (deps f k) s ls s1 I (deps_bound h f k Hk O) G)
        as [I1 [X1 C1]].
      destruct (combine f k ls) as [[l0|cs]|] eqn:Cm; [| |discriminate].
      * destruct (fin_inv h todo s1 f k _ _ _ _ _ I1 Tr) as [-> [I' [X' C']]].
        -- intros s'' X'' _. split; [exact Hk|]. left. repeat split; auto. exists ls. split; [now apply (ext_all_cached s1 s'')|].
           intros T v _ V. exact (combine_sem T v f k ls (CAlias l0) V Cm).
        -- split; [exact I'|]. split; [eapply ext_trans; eauto|exact C'].
      * cbn [fresh] in Tr.
        set (s2 := mkst (S (nxt s1)) ((nxt s1, KChoice) :: kinds s1) (cls s1) (cache s1) (pending s1) (ENew (nxt s1) KChoice (f, k) :: log s1)) in *.
        assert (ext s1 s2) as X2 by (split; cbn; eauto).
        assert (Inv h todo s2) as I2 by (apply (Inv_ext_same h todo s1 s2 I1 X2); reflexivity).
        destruct (fin_inv h todo s2 f k _ _ _ _ _ I2 Tr) as [-> [I' [X' C']]].
        -- intros s'' X'' Es. split; [exact Hk|]. left. repeat split; auto. exists ls.
           split; [apply (ext_all_cached s2 s'' _ _ X''), (ext_all_cached s1 s2 _ _ X2), C1|].
           intros T v Oc V. apply (combine_sem T v f k ls (CDefine cs) V Cm). intros b Hb. subst s''.
           now apply (ok_cls_add T v s2 (f, k) (cs (true, VX (nxt s1))) f k (true, VX (nxt s1)) true Oc).
        -- split; [exact I'|]. split; [|exact C']. eapply ext_trans; [exact X1|]. eapply ext_trans; eauto.
Qed.

(* ---------------- soundness at a stable point (nothing left to process) ---------------- *)
Lemma fut_step_spec u sx sy h k : k <= h ->
  fut u sx sy (h - k) k = tel_spec (nop u) true (sx k) (sy k) (if k + 1 <=? h then fut u sx sy (h - (k + 1)) (k + 1) else negb u).
Proof.
  intros Hk. destruct (h - k) as [|d] eqn:E.
  - assert (k + 1 <=? h = false) as -> by (apply Nat.leb_gt; lia). destruct u; cbn; [now rewrite andb_false_r, orb_false_r|now rewrite orb_true_r, andb_true_r].
  - assert (k + 1 <=? h = true) as -> by (apply Nat.leb_le; lia). replace (h - (k + 1)) with d by lia. replace (k + 1) with (S k) by lia. destruct u; reflexivity.
Qed.
Lemma pst_step_spec u sx sy k : pst u sx sy (S k) = tel_spec (pop u) true (sx (S k)) (sy (S k)) (pst u sx sy k).
Proof. destruct u; reflexivity. Qed.
Lemma tel_spec_default op (u : bool) r p : (op = nop u \/ op = pop u) -> tel_spec op true u r p = tel_spec op false false r p.
Proof. intros [->| ->]; destruct u; reflexivity. Qed.
Section Value.
Variable h : nat.
Variable s : st.
Hypothesis I : Inv h [] s.
Variable T : trace.
Variable v : nat -> bool.
Hypothesis Oc : ok_cls T v s.
Hypothesis Oe : ok_ext v s.
Definition val (f : bf) (k : nat) : bool := match lookup s f k with Some (l, _) => ev T v l | None => false end.
Lemma val_cached f k l : cached s f k l -> val f k = ev T v l.
Proof. intros [d E]. unfold val. now rewrite E. Qed.
Lemma vals_of_deps ds ls : all_cached s ds ls -> map (ev T v) ls = map (fun d => val (fst d) (snd d)) ds.
Proof. intros F. induction F as [|d l ds ls C F IH]; cbn [map]; [reflexivity|]. now rewrite IH, (val_cached _ _ _ C). Qed.
Lemma deps_are_cached ds ls : all_cached s ds ls -> forall d, In d ds -> exists l, cached s (fst d) (snd d) l.
Proof. intros F. induction F as [|d l ds ls C F IH]; intros d' Hd; [destruct Hd|]. destruct Hd as [<-|Hd]; [now exists l|now apply IH]. Qed.
Definition dval (d : bf * nat) : bool := val (fst d) (snd d).
Lemma entry_cases f k l : cached s f k l -> k <= h /\
  ((outside h f k = false /\ (forall d, In d (deps f k) -> exists l', cached s (fst d) (snd d) l') /\ val f k = sem T f k (map dval (deps f k)))
   \/ (exists n w x, f = Nx n w x /\ (k + n <=? h) = false /\ val f k = w)).
Proof.
  intros [d L]. destruct (I _ _ _ _ L) as [Hk EO]. split; [exact Hk|].
  assert (val f k = ev T v l) as V0 by (apply val_cached; now exists d).
  destruct EO as [[Hd [Ho [ls [Cs E]]]]|[Hd [n [w [x [e [-> [-> Pend]]]]]]]].
  - left. split; [exact Ho|]. split; [now apply (deps_are_cached _ ls)|]. rewrite V0, (E T v Oc (proj1 Oe)). f_equal. now apply vals_of_deps.
  - right. exists n, w, x. split; [reflexivity|]. destruct (k + n <=? h) eqn:R; [destruct Pend|]. split; [reflexivity|].
    rewrite V0. unfold ev. cbn. apply (proj2 Oe). exists n, x, k. now subst d.
Qed.
Theorem value_at_cached : forall f k l, cached s f k l -> val f k = lsat h T f k.
Proof.
  induction f as [a|b|x IH|op x IHx y IHy|n w x IH|x IH|n w x IH|u l IHl r IHr|u r IHr|u l IHl r IHr|u r IHr]; intros k l0 C;
    destruct (entry_cases _ k l0 C) as [Hk [[Ho [Dc E]]|[n' [w' [x' [Ef [R E]]]]]]]; try discriminate; try (cbn [deps] in Dc, E); cbn [lsat].
  - exact E.
  - exact E.
  - rewrite E. cbn [sem map]; unfold dval; cbn [fst snd]. destruct (Dc _ (or_introl eq_refl)) as [lx Cx]; cbn [fst snd] in Cx. now rewrite (IH _ _ Cx).
  - rewrite E. cbn [sem map]; unfold dval; cbn [fst snd]. destruct (Dc _ (or_introl eq_refl)) as [lx Cx]; cbn [fst snd] in Cx. destruct (Dc _ (or_intror (or_introl eq_refl))) as [ly Cy]; cbn [fst snd] in Cy.
    now rewrite (IHx _ _ Cx), (IHy _ _ Cy).
  - rewrite E. cbn [sem]. destruct (n <=? k); [|reflexivity]. cbn [map hd]; unfold dval; cbn [fst snd]. destruct (Dc _ (or_introl eq_refl)) as [lx Cx]; cbn [fst snd] in Cx. now rewrite (IH _ _ Cx).
  - rewrite E. cbn [sem map]; unfold dval; cbn [fst snd]. destruct (Dc _ (or_introl eq_refl)) as [lx Cx]; cbn [fst snd] in Cx. now rewrite (IH _ _ Cx).
  - cbn [outside] in Ho. apply negb_false_iff in Ho. rewrite Ho, E. cbn [sem map]; unfold dval; cbn [fst snd]. destruct (Dc _ (or_introl eq_refl)) as [lx Cx]; cbn [fst snd] in Cx. now rewrite (IH _ _ Cx).
  - injection Ef as <- <- <-. now rewrite R, E.
  - (* until / release with left operand: induction on the distance to the end of the trace *)
    clear Ho Dc E. remember (h - k) as dist eqn:Hd. revert k l0 C Hk Hd. induction dist as [dist IHd] using lt_wf_ind. intros k l0 C Hk Hd.
    destruct (entry_cases _ k l0 C) as [_ [[_ [Dc E]]|[n' [w' [x' [Ef _]]]]]]; [|discriminate]. cbn [deps] in Dc, E.
    destruct (Dc _ (or_introl eq_refl)) as [lp Cp]; cbn [fst snd] in Cp. destruct (Dc _ (or_intror (or_introl eq_refl))) as [ll Cl]; cbn [fst snd] in Cl. destruct (Dc _ (or_intror (or_intror (or_introl eq_refl)))) as [lr Cr]; cbn [fst snd] in Cr.
    rewrite E, Hd. cbn [sem map]; unfold dval; cbn [fst snd]. rewrite (IHl _ _ Cl), (IHr _ _ Cr), (fut_step_spec u _ _ h k Hk). f_equal.
    destruct (entry_cases _ k lp Cp) as [_ [[Ho' [Dc' E']]|[n' [w' [x' [Ef [R E']]]]]]].
    + cbn [fut_of outside] in Ho'. apply negb_false_iff in Ho'. rewrite Ho', E'. cbn [fut_of deps sem map]; unfold dval; cbn [fst snd].
      destruct (Dc' _ (or_introl eq_refl)) as [ln Cn]; cbn [fst snd] in Cn. apply Nat.leb_le in Ho'.
      apply (IHd (h - (k + 1)) ltac:(lia) (k + 1) ln Cn); lia.
    + unfold fut_of in Ef. injection Ef as <- <- <-. now rewrite R, E'.
  - clear Ho Dc E. remember (h - k) as dist eqn:Hd. revert k l0 C Hk Hd. induction dist as [dist IHd] using lt_wf_ind. intros k l0 C Hk Hd.
    destruct (entry_cases _ k l0 C) as [_ [[_ [Dc E]]|[n' [w' [x' [Ef _]]]]]]; [|discriminate]. cbn [deps] in Dc, E.
    destruct (Dc _ (or_introl eq_refl)) as [lp Cp]; cbn [fst snd] in Cp. destruct (Dc _ (or_intror (or_introl eq_refl))) as [lr Cr]; cbn [fst snd] in Cr.
    rewrite E, Hd. cbn [sem map]; unfold dval; cbn [fst snd]. rewrite (IHr _ _ Cr), (fut_step_spec u _ _ h k Hk), (tel_spec_default (nop u) u) by now left. f_equal.
    destruct (entry_cases _ k lp Cp) as [_ [[Ho' [Dc' E']]|[n' [w' [x' [Ef [R E']]]]]]].
    + cbn [fut_of outside] in Ho'. apply negb_false_iff in Ho'. rewrite Ho', E'. cbn [fut_of deps sem map]; unfold dval; cbn [fst snd].
      destruct (Dc' _ (or_introl eq_refl)) as [ln Cn]; cbn [fst snd] in Cn. apply Nat.leb_le in Ho'.
      apply (IHd (h - (k + 1)) ltac:(lia) (k + 1) ln Cn); lia.
    + unfold fut_of in Ef. injection Ef as <- <- <-. now rewrite R, E'.
  - (* since / trigger with left operand: induction on the state *)
    clear Ho Dc E Hk. revert l0 C. induction k as [|k IHk]; intros l0 C;
      destruct (entry_cases _ _ l0 C) as [_ [[_ [Dc E]]|[n' [w' [x' [Ef _]]]]]]; try discriminate; cbn [deps] in Dc, E.
    + rewrite E. cbn [sem map pst]; unfold dval; cbn [fst snd]. destruct (Dc _ (or_introl eq_refl)) as [lr Cr]; cbn [fst snd] in Cr. now rewrite (IHr _ _ Cr).
    + destruct (Dc _ (or_introl eq_refl)) as [lp Cp]; cbn [fst snd] in Cp. destruct (Dc _ (or_intror (or_introl eq_refl))) as [ll Cl]; cbn [fst snd] in Cl. destruct (Dc _ (or_intror (or_intror (or_introl eq_refl)))) as [lr Cr]; cbn [fst snd] in Cr.
      rewrite E. cbn [sem map]; unfold dval; cbn [fst snd]. rewrite (IHl _ _ Cl), (IHr _ _ Cr), (IHk _ Cp), pst_step_spec. reflexivity.
  - clear Ho Dc E Hk. revert l0 C. induction k as [|k IHk]; intros l0 C;
      destruct (entry_cases _ _ l0 C) as [_ [[_ [Dc E]]|[n' [w' [x' [Ef _]]]]]]; try discriminate; cbn [deps] in Dc, E.
    + rewrite E. cbn [sem map pst]; unfold dval; cbn [fst snd]. destruct (Dc _ (or_introl eq_refl)) as [lr Cr]; cbn [fst snd] in Cr. now rewrite (IHr _ _ Cr).
    + destruct (Dc _ (or_introl eq_refl)) as [lp Cp]; cbn [fst snd] in Cp. destruct (Dc _ (or_intror (or_introl eq_refl))) as [lr Cr]; cbn [fst snd] in Cr.
      rewrite E. cbn [sem map]; unfold dval; cbn [fst snd]. rewrite (IHr _ _ Cr), (IHk _ Cp), pst_step_spec, (tel_spec_default (pop u) u) by now right. reflexivity.
Qed.
End Value.
Theorem value_full h s : Inv h [] s -> forall T v, ok_cls T v s -> ok_ext v s -> forall f k l, cached s f k l -> ev T v l = lsat h T f k.
Proof. intros I T v Oc Oe f k l C. rewrite <- (val_cached s T v f k l C). now apply (value_at_cached h s I T v Oc Oe f k l). Qed.

(* ---------------- horizon step: what was pending becomes the todo list ---------------- *)
Lemma Inv_init h : Inv h [] init.
Proof. intros f k l d L. unfold lookup, init in L. cbn in L. discriminate. Qed.
Lemma Inv_next_horizon h s : Inv h [] s -> Inv (S h) (pending s) (clear_pending s).
Proof.
  intros I f k l d L. change (lookup s f k = Some (l, d)) in L. destruct (I _ _ _ _ L) as [Hk EO]. split; [lia|].
  destruct EO as [[Hd [Ho [ls [Cs E]]]]|[Hd [n [w [x [e [Ef [El Pend]]]]]]]].
  - left. split; [exact Hd|]. split.
    + destruct f; cbn [outside] in *; try reflexivity. apply negb_false_iff in Ho. apply negb_false_iff. apply Nat.leb_le in Ho. apply Nat.leb_le. lia.
    + exists ls. split; [exact Cs|]. intros T v O V. now apply E.
  - right. split; [exact Hd|]. exists n, w, x, e. repeat split; auto.
    destruct (k + n <=? h) eqn:R; [destruct Pend|]. destruct Pend as [[]|Pend].
    destruct (k + n <=? S h); [exact Pend|left; exact Pend].
Qed.
Lemma nx_resolved_or_requeued fuel h todo n w x k s l s' : Inv h todo s -> translate fuel h (Nx n w x) k s = Some (l, s') ->
  forall l0, lookup s' (Nx n w x) k = Some (l0, false) -> (k + n <=? h) = false /\ In (k, Nx n w x) (pending s').
Proof.
  intros I Tr l0 L'. destruct fuel as [|fu]; [discriminate|]. cbn [translate] in Tr.
  destruct (lookup s (Nx n w x) k) as [[l1 [|]]|] eqn:L.
  - inversion Tr; subst. congruence.
  - destruct (k + n <=? h) eqn:R.
    + destruct (translate fu h x (k + n) s) as [[lx s1]|]; [|discriminate]. inversion Tr; subst. rewrite lookup_set_same in L'. discriminate.
    + inversion Tr; subst. split; [reflexivity|]. cbn. now left.
  - cbn [outside] in Tr. destruct (k + n <=? h) eqn:R; cbn [negb] in Tr.
    + destruct (go (translate fu h) (deps (Nx n w x) k) s) as [[ls s1]|]; [|discriminate]. cbn [combine] in Tr.
      destruct ls as [|lx [|? ?]]; try discriminate. unfold fin in Tr. destruct (lookup s1 (Nx n w x) k); [discriminate|].
      inversion Tr; subst. rewrite lookup_set_same in L'. discriminate.
    + cbn [fresh] in Tr. unfold fin in Tr. match type of Tr with match ?c with _ => _ end = _ => destruct c end; [discriminate|].
      inversion Tr; subst. split; [reflexivity|]. cbn. now left.
Qed.
Definition neqb (k : nat) (f : bf) (p : nat * bf) : bool := negb ((fst p =? k) && (if bf_eq_dec (snd p) f then true else false)).
Lemma Inv_drop h todo s k f :
  Inv h todo s -> (forall n w x l0, f = Nx n w x -> lookup s f k = Some (l0, false) -> (k + n <=? h) = false /\ In (k, f) (pending s)) ->
  Inv h (filter (neqb k f) todo) s.
Proof.
  intros I Hf f' k' l d L. destruct (I _ _ _ _ L) as [Hk EO]. split; [exact Hk|].
  destruct EO as [E|[Hd [n [w [x [e [Ef [El Pend]]]]]]]]; [now left|]. right. split; [exact Hd|]. exists n, w, x, e. repeat split; auto. subst f' d.
  destruct (key_dec f (Nx n w x) k k') as [Ek|N].
  - inversion Ek; subst. destruct (Hf n w x _ eq_refl L) as [R P]. rewrite R. now right.
  - assert (neqb k f (k', Nx n w x) = true) as NB.
    { unfold neqb. cbn. destruct (Nat.eqb_spec k' k) as [->|]; [|reflexivity]. destruct (bf_eq_dec (Nx n w x) f) as [<-|]; [congruence|reflexivity]. }
    destruct (k' + n <=? h).
    + apply filter_In. now split.
    + destruct Pend as [P|P]; [left; apply filter_In; now split|now right].
Qed.
Lemma run_list_inv fuel h : forall r todo s s', Inv h todo s -> (forall p, In p todo -> In p r) -> (forall p, In p r -> fst p <= h) ->
  run_list fuel h r s = Some s' -> Inv h [] s'.
Proof.
  induction r as [|[k f] r IH]; intros todo s s' I Sub Bd Run; cbn [run_list] in Run.
  - inversion Run; subst. destruct todo as [|p t]; [exact I|destruct (Sub p (or_introl eq_refl))].
  - destruct (translate fuel h f k s) as [[l s1]|] eqn:Tr; [|discriminate].
    assert (k <= h) as Hk by (apply (Bd (k, f)); now left).
    destruct (translate_inv fuel h todo f k s l s1 I Hk Tr) as [I1 [X1 C1]].
    apply (IH (filter (neqb k f) todo) s1 s'); [| | |exact Run].
    + apply Inv_drop; [exact I1|]. intros n w x l0 -> L0. exact (nx_resolved_or_requeued fuel h todo n w x k s l s1 I Tr l0 L0).
    + intros p Hp. apply filter_In in Hp as [Hp NB]. destruct (Sub p Hp) as [<-|Hr]; [|exact Hr].
      unfold neqb in NB. cbn in NB. rewrite Nat.eqb_refl in NB. destruct (bf_eq_dec f f); [discriminate|contradiction].
    + intros p Hp. apply Bd. now right.
Qed.
Theorem theory_translate_inv fuel h s roots s' :
  Inv h [] s -> (forall p, In p (pending s) -> fst p <= S h) -> (forall p, In p roots -> fst p <= S h) ->
  theory_translate fuel (S h) roots s = Some s' -> Inv (S h) [] s'.
Proof.
  intros I Bp Br Run. unfold theory_translate in Run.
  apply (run_list_inv fuel (S h) (rev (pending s) ++ roots) (pending s) (clear_pending s) s' (Inv_next_horizon h s I)); [| |exact Run].
  - intros p Hp. apply in_or_app. left. now apply in_rev in Hp.
  - intros p Hp. apply in_app_or in Hp as [Hp|Hp]; [apply Bp; now apply in_rev|now apply Br].
Qed.
Theorem first_horizon_inv fuel roots s' : (forall p, In p roots -> fst p <= 0) -> run_list fuel 0 roots init = Some s' -> Inv 0 [] s'.
Proof. intros Br Run. apply (run_list_inv fuel 0 roots [] init s' (Inv_init 0)); [intros p []|exact Br|exact Run]. Qed.
(* the incremental theorem: after any number of horizons, every cached literal has the LTLf value of its formula at the current horizon,
   in every assignment that violates none of the emitted constraints and gives the pending placeholders their boundary values *)
Corollary incremental_full fuel h s roots s' T v :
  Inv h [] s -> (forall p, In p (pending s) -> fst p <= S h) -> (forall p, In p roots -> fst p <= S h) ->
  theory_translate fuel (S h) roots s = Some s' -> ok_cls T v s' -> ok_ext v s' ->
  forall f k l, cached s' f k l -> ev T v l = lsat (S h) T f k.
Proof. intros I Bp Br Run Oc Oe. apply (value_full (S h) s'); auto. eapply theory_translate_inv; eauto. Qed.
End BTF.
