(* Model of telingo/theory/body.py + theory/__init__.py for the FULL operator set of &tel body formulas: Atom, BooleanConstant,
   Negation, BooleanFormula (& | <- -> <>), Previous / Next (n-fold, weak and strong), Initially, TelFormulaP (since / trigger, with and
   without left operand), TelFormulaN (until / release, with and without left operand, with the deferred next of set_future).
   The operational model (per-(formula, step) cache with a done flag, fresh choice atoms, clause groups, external placeholders for
   next formulas beyond the horizon, the pending list re-processed when the horizon grows) is generic in the formula class: every
   class is given by the list of (formula, step) pairs it translates first (deps), by what it does with their literals (combine: reuse
   a literal, or define a fresh choice atom by a clause group) and by the one-step meaning (sem).  The clause groups are the tables
   REGENERATED from the source (Gen/FromTheory.v: boolean_clauses_gen, tel_clauses_gen, make_equal_cl_gen).
   Theorems: the invariant is preserved by translate and across horizons, and at every stable point every cached literal has the LTLf
   value of its formula in every assignment that violates no emitted constraint (value_full / incremental_full). *)
From Coq Require Import List Bool Arith ZArith Lia.
Require Import GenPrelude TheoryPrelude FromTheory DynPrelude FromDynamic TEL LDL LDLext TheorySem.
Import ListNotations.
Section BTF.
Variable A : Type.
Hypothesis A_eq_dec : forall a b : A, {a = b} + {a <> b}.
Notation path := (LDL.path A).
Inductive bf := At (a : A) | Cst (b : bool) | Neg (x : bf) | Bin (op : boolop) (x y : bf) | Pv (n : nat) (w : bool) (x : bf) | Ini (x : bf)
              | Nx (n : nat) (w : bool) (x : bf) | TN2 (u : bool) (l r : bf) | TN1 (u : bool) (r : bf) | TP2 (u : bool) (l r : bf) | TP1 (u : bool) (r : bf)
              | Dia (p : path) (g : bf) | Box (p : path) (g : bf).                    (* &del: DiamondFormula / BoxFormula over path expressions *)
Lemma boolop_eq_dec : forall a b : boolop, {a = b} + {a <> b}.  Proof. decide equality. Defined.
Lemma tst_eq_dec : forall a b : LDL.tst A, {a = b} + {a <> b}.  Proof. decide equality; apply Bool.bool_dec. Defined.
Lemma path_eq_dec : forall a b : path, {a = b} + {a <> b}.  Proof. decide equality; apply tst_eq_dec. Defined.
Lemma bf_eq_dec : forall f g : bf, {f = g} + {f <> g}.
Proof. decide equality; try apply Bool.bool_dec; try apply Nat.eq_dec; try apply path_eq_dec; apply boolop_eq_dec. Defined.
Opaque bf_eq_dec boolop_eq_dec tst_eq_dec path_eq_dec.       (* transparent for extraction only *)
Definition trace := nat -> A -> bool.
(* ---------------- LTLf semantics at horizon h ---------------- *)
Fixpoint lsat (h : nat) (T : trace) (p : bf) : nat -> bool :=
  match p with
  | At a => fun k => T k a
  | Cst b => fun _ => b
  | Neg x => fun k => negb (lsat h T x k)
  | Bin op x y => fun k => bool_spec op (lsat h T x k) (lsat h T y k)
  | Pv n w x => fun k => if n <=? k then lsat h T x (k - n) else w
  | Ini x => fun _ => lsat h T x 0
  | Nx n w x => fun k => if k + n <=? h then lsat h T x (k + n) else w
  | TN2 u l r => fun k => fut u (lsat h T l) (lsat h T r) (h - k) k
  | TN1 u r => fun k => fut u (fun _ => u) (lsat h T r) (h - k) k
  | TP2 u l r => fun k => pst u (lsat h T l) (lsat h T r) k
  | TP1 u r => fun k => pst u (fun _ => u) (lsat h T r) k
  | Dia p g => fun k => LDL.ds A h T p (lsat h T g) k
  | Box p g => fun k => negb (LDL.ds A h T p (fun j => negb (lsat h T g j)) k)
  end.
(* ---------------- &del: what DiamondFormula / BoxFormula.translate_<PathClass> build (tables REGENERATED: Gen/FromDynamic.v) ---------------- *)
Definition tbf (t : LDL.tst A) : bf := match t with TAtom _ a => At a | TConst _ b => Cst b end.
Definition pshape_of (p : path) : pshape :=
  match p with Skip _ => ShSkip | Test _ _ => ShCheck | Choice _ _ _ => ShChoice | Seq _ _ _ => ShSeq | Star _ _ => ShStar end.
Definition psel_of (p : path) (sl : psel) : option path :=
  match sl, p with
  | PSelLhs, Choice _ l _ | PSelLhs, Seq _ l _ => Some l
  | PSelRhs, Choice _ _ r | PSelRhs, Seq _ _ r => Some r
  | PSelArg, Star _ q => Some q
  | PSkipC, _ => Some (Skip _)
  | _, _ => None
  end.
Fixpoint cinst (self : bf) (p : path) (rhs : bf) (e : cexp) : option bf :=
  match e with
  | CSelf => Some self
  | CRhs => Some rhs
  | CTest => match p with Test _ t => Some (tbf t) | _ => None end
  | CDia sl f => match psel_of p sl, cinst self p rhs f with Some q, Some g => Some (Dia q g) | _, _ => None end
  | CBox sl f => match psel_of p sl, cinst self p rhs f with Some q, Some g => Some (Box q g) | _, _ => None end
  | CBool op a b => match cinst self p rhs a, cinst self p rhs b with Some x, Some y => Some (Bin op x y) | _, _ => None end
  | CNeg a => option_map Neg (cinst self p rhs a)
  | CNext a n w => option_map (Nx n w) (cinst self p rhs a)
  | CConst b => Some (Cst b)
  end.
Definition reduce (f : bf) : option bf :=
  match f with
  | Dia p g => cinst f p g (dia_reduce_gen (pshape_of p))
  | Box p g => cinst f p g (box_reduce_gen (pshape_of p))
  | _ => None
  end.
(* the documented normal form: iteration only over paths that consume a step (LDLext.wfp) *)
Notation consuming := (LDLext.consuming A).
Notation wfp := (LDLext.wfp A).
Fixpoint wfb (f : bf) : bool :=
  match f with
  | At _ | Cst _ => true
  | Neg x | Pv _ _ x | Ini x | Nx _ _ x | TN1 _ x | TP1 _ x => wfb x
  | Bin _ x y | TN2 _ x y | TP2 _ x y => wfb x && wfb y
  | Dia p g | Box p g => wfp p && wfb g
  end.
(* ---------------- the formula classes: dependencies, one-step meaning ---------------- *)
Definition fut_of (f : bf) (u : bool) : bf := Nx 1 (negb u) f.          (* set_future(Next(self, 1, not until)) *)
Definition deps (f : bf) (k : nat) : list (bf * nat) :=
  match f with
  | At _ | Cst _ => []
  | Neg x => [(x, k)]
  | Bin _ x y => [(x, k); (y, k)]
  | Pv n _ x => if n <=? k then [(x, k - n)] else []
  | Ini x => [(x, 0)]
  | Nx n _ x => [(x, k + n)]
  | TN2 u l r => [(fut_of f u, k); (l, k); (r, k)]
  | TN1 u r => [(fut_of f u, k); (r, k)]
  | TP2 _ l r => match k with 0 => [(r, 0)] | S k' => [(f, k'); (l, k); (r, k)] end
  | TP1 _ r => match k with 0 => [(r, 0)] | S k' => [(f, k'); (r, k)] end
  | Dia _ _ | Box _ _ => match reduce f with Some r => [(r, k)] | None => [] end
  end.
Definition outside (h : nat) (f : bf) (k : nat) : bool := match f with Nx n _ _ => negb (k + n <=? h) | _ => false end.
Definition nop (u : bool) : telop := if u then OpUntil else OpRelease.
Definition pop (u : bool) : telop := if u then OpSince else OpTrigger.
Definition sem (T : trace) (f : bf) (k : nat) (vs : list bool) : bool :=
  match f, vs with
  | At a, _ => T k a
  | Cst b, _ => b
  | Neg _, [x] => negb x
  | Bin op _ _, [x; y] => bool_spec op x y
  | Pv n w _, vs => if n <=? k then hd false vs else w
  | Ini _, [x] => x
  | Nx _ _ _, [x] => x
  | TN2 u _ _, [p; l; r] => tel_spec (nop u) true l r p
  | TN1 u _, [p; r] => tel_spec (nop u) false false r p
  | TP2 u _ _, vs => match k, vs with 0, [r] => r | S _, [p; l; r] => tel_spec (pop u) true l r p | _, _ => false end
  | TP1 u _, vs => match k, vs with 0, [r] => r | S _, [p; r] => tel_spec (pop u) false false r p | _, _ => false end
  | Dia _ _, [x] => x
  | Box _ _, [x] => x
  | _, _ => false
  end.
(* ---------------- executable model of the translation ---------------- *)
Inductive var := VU (a : A) (k : nat) | VX (n : nat).
Definition lit := (bool * var)%type.
Definition nlit (l : lit) : lit := (negb (fst l), snd l).
Inductive kind := KChoice | KFalse | KExt (val : option bool).          (* KExt None = free external *)
Inductive event := ENew (n : nat) (kd : kind) (key : bf * nat)          (* an auxiliary atom allocated for an entry: choice atom or external placeholder *)
                 | EGroup (key : bf * nat) (cs : list (list lit))       (* a clause group emitted for an entry *)
                 | EFree (n : nat).                                      (* a resolved placeholder is made a free external *)
Record st := mkst { nxt : nat; kinds : list (nat * kind); cls : list (list lit);
                    cache : list ((bf * nat) * (lit * bool)); pending : list (nat * bf);
                    log : list event }.                                  (* ghost: what was emitted, newest first *)
Definition keyb (f : bf) (k : nat) (p : (bf * nat) * (lit * bool)) : bool := if bf_eq_dec (fst (fst p)) f then snd (fst p) =? k else false.
Definition lookup (s : st) f k : option (lit * bool) := option_map snd (find (keyb f k) (cache s)).
Definition set_cache s f k l d := mkst (nxt s) (kinds s) (cls s) (((f, k), (l, d)) :: cache s) (pending s) (log s).
Definition fresh s kd (key : bf * nat) : nat * st := (nxt s, mkst (S (nxt s)) ((nxt s, kd) :: kinds s) (cls s) (cache s) (pending s) (ENew (nxt s) kd key :: log s)).
Definition add_cls s (key : bf * nat) cs := mkst (nxt s) (kinds s) (cs ++ cls s) (cache s) (pending s) (match cs with [] => log s | _ => EGroup key cs :: log s end).
Definition add_pending s k f := mkst (nxt s) (kinds s) (cls s) (cache s) ((k, f) :: pending s) (log s).
Definition add_free s n := mkst (nxt s) (kinds s) (cls s) (cache s) (pending s) (EFree n :: log s).
Definition init : st := mkst 1 [(0, KFalse)] [] [] [] [].                     (* VX 0 is the false literal *)
Definition lfalse : lit := (true, VX 0).
Definition ltrue : lit := (false, VX 0).
Definition lconst (b : bool) : lit := if b then ltrue else lfalse.
(* the regenerated clause tables, instantiated with concrete literals *)
Definition lmap (l lhs rhs pre : lit) : lvar -> lit := fun x => match x with Llit => l | Llhs => lhs | Lrhs => rhs | Lpre => pre | La => l | Lb => rhs end.
Definition inst (m : lvar -> lit) (cs : list (list slit)) : list (list lit) := map (map (fun sl => match sl with P x => m x | N x => nlit (m x) end)) cs.
Inductive comb := CAlias (l : lit) | CDefine (cs : lit -> list (list lit)).
Definition combine (f : bf) (k : nat) (ls : list lit) : option comb :=
  match f, ls with
  | At a, [] => Some (CAlias (true, VU a k))
  | Cst b, [] => Some (CAlias (lconst b))
  | Neg _, [lx] => Some (CAlias (nlit lx))
  | Bin op _ _, [lx; ly] => Some (CDefine (fun l => inst (lmap l lx ly lfalse) (boolean_clauses_gen op)))
  | Pv n w _, ls => if n <=? k then match ls with [lx] => Some (CAlias lx) | _ => None end else match ls with [] => Some (CAlias (lconst w)) | _ => None end
  | Ini _, [lx] => Some (CAlias lx)
  | Nx _ _ _, [lx] => Some (CAlias lx)
  | TN2 u _ _, [lp; ll; lr] => Some (CDefine (fun l => inst (lmap l ll lr lp) (tel_clauses_gen (nop u) true)))
  | TN1 u _, [lp; lr] => Some (CDefine (fun l => inst (lmap l lfalse lr lp) (tel_clauses_gen (nop u) false)))
  | TP2 u _ _, ls => match k, ls with
                     | 0, [lr] => Some (CAlias lr)
                     | S _, [lp; ll; lr] => Some (CDefine (fun l => inst (lmap l ll lr lp) (tel_clauses_gen (pop u) true)))
                     | _, _ => None end
  | TP1 u _, ls => match k, ls with
                   | 0, [lr] => Some (CAlias lr)
                   | S _, [lp; lr] => Some (CDefine (fun l => inst (lmap l lfalse lr lp) (tel_clauses_gen (pop u) false)))
                   | _, _ => None end
  | Dia _ _, [lx] => Some (CDefine (fun l => inst (lmap lx lfalse l lfalse) make_equal_cl_gen))      (* data.add_literal, then add_atom(literal of what was built): make_equal(built, own) *)
  | Box _ _, [lx] => Some (CDefine (fun l => inst (lmap lx lfalse l lfalse) make_equal_cl_gen))
  | _, _ => None
  end.
(* after the recursive calls the entry must still be unset: StepData.add_literal asserts this (an Internal outcome = None here) *)
Definition fin (s : st) (f : bf) (k : nat) (l : lit) (d : bool) (cs : list (list lit)) : option (lit * st) :=
  match lookup s f k with Some _ => None | None => Some (l, set_cache (add_cls s (f, k) cs) f k l d) end.
Fixpoint go (tr : bf -> nat -> st -> option (lit * st)) (ds : list (bf * nat)) (s : st) : option (list lit * st) :=
  match ds with
  | [] => Some ([], s)
  | (g, j) :: r => match tr g j s with None => None | Some (l1, s1) => match go tr r s1 with None => None | Some (ls, s2) => Some (l1 :: ls, s2) end end
  end.
Fixpoint translate (fuel h : nat) (f : bf) (k : nat) (s : st) : option (lit * st) :=
  match fuel with 0 => None | S fu =>
  match lookup s f k with
  | Some (l, true) => Some (l, s)
  | Some (l, false) =>
      match f with
      | Nx n w x =>
          if k + n <=? h then
            match translate fu h x (k + n) s with None => None | Some (lx, s1) =>
              Some (l, set_cache (let s2 := add_cls s1 (f, k) (inst (lmap l lfalse lx lfalse) make_equal_cl_gen) in match l with (_, VX e) => add_free s2 e | _ => s2 end) f k l true) end
          else Some (l, add_pending s k f)
      | _ => Some (l, s)
      end
  | None =>
      if outside h f k then
        let (e, s1) := fresh s (KExt (Some (match f with Nx _ w _ => w | _ => false end))) (f, k) in fin (add_pending s1 k f) f k (true, VX e) false []
      else
        match go (translate fu h) (deps f k) s with None => None | Some (ls, s1) =>
          match combine f k ls with
          | None => None
          | Some (CAlias l) => fin s1 f k l true []
          | Some (CDefine cs) => let (z, s2) := fresh s1 KChoice (f, k) in let l := (true, VX z) in fin s2 f k l true (cs l)
          end end
  end end.
(* Theory.translate for one horizon: roots are the (formula, step) pairs of the ground theory atoms; then the old pending list *)
Fixpoint run_list (fuel h : nat) (todo : list (nat * bf)) (s : st) : option st :=
  match todo with [] => Some s | (k, f) :: r => match translate fuel h f k s with None => None | Some (_, s1) => run_list fuel h r s1 end end.
Definition clear_pending (s : st) := mkst (nxt s) (kinds s) (cls s) (cache s) [] (log s).
Definition theory_translate (fuel h : nat) (roots : list (nat * bf)) (s : st) : option st :=
  run_list fuel h (rev (pending s) ++ roots) (clear_pending s).
(* ---------------- semantics of a state ---------------- *)
Definition ev (T : trace) (v : nat -> bool) (l : lit) : bool :=
  let b := match snd l with VU a k => T k a | VX n => v n end in if fst l then b else negb b.
Definition ok_cls T v (s : st) := forall b, In b (cls s) -> forallb (ev T v) b = false.
Definition is_placeholder (s : st) (e : nat) (w : bool) := exists n x k, lookup s (Nx n w x) k = Some ((true, VX e), false).
Definition ok_ext (v : nat -> bool) (s : st) := v 0 = false /\ forall e w, is_placeholder s e w -> v e = w.
Definition cached s f k l := exists d, lookup s f k = Some (l, d).
Definition all_cached s (ds : list (bf * nat)) (ls : list lit) := Forall2 (fun d l => cached s (fst d) (snd d) l) ds ls.
(* the invariant; todo = pending entries of the previous horizon that are still to be processed *)
Definition entry_ok (h : nat) (todo : list (nat * bf)) (s : st) (f : bf) (k : nat) (l : lit) (d : bool) : Prop :=
  k <= h /\
  ((d = true /\ outside h f k = false /\ exists ls, all_cached s (deps f k) ls /\
      forall T v, ok_cls T v s -> v 0 = false -> ev T v l = sem T f k (map (ev T v) ls))
   \/ (d = false /\ exists n w x e, f = Nx n w x /\ l = (true, VX e) /\
        (if k + n <=? h then In (k, f) todo else In (k, f) todo \/ In (k, f) (pending s)))).
Definition Inv h todo s := forall f k l d, lookup s f k = Some (l, d) -> entry_ok h todo s f k l d.
(* every formula in the cache or on the pending list is in the documented normal form (iteration only over step-consuming paths) *)
Definition Wf (s : st) : Prop := (forall f k l d, lookup s f k = Some (l, d) -> wfb f = true) /\ (forall p, In p (pending s) -> wfb (snd p) = true).

(* ---------------- clause tables mean what they should ----------------
   The three leaf lemmas about the REGENERATED tables are hypotheses of this section (discharged in Props/C03.v with the lemmas of
   Proofs/Leaf_theory.v), so that this file - whose definitions are extracted for the structural correspondence - compiles whatever the
   tables say; a change of the source that breaks a table breaks the property theorems, not the executable model. *)
Hypothesis boolean_clauses_spec : forall op v, holds v (boolean_clauses_gen op) = Bool.eqb (v Llit) (bool_spec op (v Llhs) (v Lrhs)).
Hypothesis tel_clauses_spec : forall op has v, holds v (tel_clauses_gen op has) = Bool.eqb (v Llit) (tel_spec op has (v Llhs) (v Lrhs) (v Lpre)).
Hypothesis make_equal_spec : forall v, holds v make_equal_cl_gen = Bool.eqb (v La) (v Lb).
(* ... and what the regenerated construction tables of the dynamic layer build, path class by path class (discharged by computation in Props/C05.v) *)
Definition finf : bf := Neg (Nx 1 false (Cst true)).              (* ~ > &true: true exactly in the last state *)
Definition dia_built (p : path) (g : bf) : bf :=
  match p with
  | Skip _ => Nx 1 false g
  | Test _ t => Bin OpAnd (tbf t) g
  | Choice _ p1 p2 => Bin OpOr (Dia p2 g) (Dia p1 g)
  | Seq _ p1 p2 => Dia p1 (Dia p2 g)
  | Star _ q => Bin OpAnd (Bin OpRImp finf g) (Bin OpOr g (Dia q (Dia p g)))
  end.
Definition box_built (p : path) (g : bf) : bf :=
  match p with
  | Skip _ => Nx 1 true g
  | Test _ t => Bin OpRImp (tbf t) g
  | Choice _ p1 p2 => Bin OpAnd (Box p2 g) (Box p1 g)
  | Seq _ p1 p2 => Box p1 (Box p2 g)
  | Star _ q => Bin OpAnd (Bin OpRImp finf g) (Bin OpAnd g (Box q (Box p g)))
  end.
Hypothesis reduce_eqs : forall p g, reduce (Dia p g) = Some (dia_built p g) /\ reduce (Box p g) = Some (box_built p g).
(* every construction is LDLf-equivalent to the modality it stands for *)
Lemma tbf_val h T t k : lsat h T (tbf t) k = tval A T t k.
Proof. destruct t; reflexivity. Qed.
Lemma finf_val h T k : lsat h T finf k = LDLext.fin h k.
Proof. unfold finf, LDLext.fin. cbn [lsat]. now destruct (k + 1 <=? h). Qed.
Lemma skip_guard h k : (k + 1 <=? h) = (k <? h).
Proof. destruct (Nat.leb_spec (k + 1) h), (Nat.ltb_spec k h); try reflexivity; lia. Qed.
Lemma built_valid h T p g k : k <= h -> lsat h T (dia_built p g) k = lsat h T (Dia p g) k /\ lsat h T (box_built p g) k = lsat h T (Box p g) k.
Proof.
  intros Hk. destruct p as [|t|l r|l r|q]; cbn [dia_built box_built lsat bool_spec]; split.
  - cbn [LDL.ds]. rewrite skip_guard. replace (k + 1) with (S k) by lia. now destruct (k <? h).
  - cbn [LDL.ds]. rewrite skip_guard. replace (k + 1) with (S k) by lia. destruct (k <? h); cbn; [now rewrite negb_involutive|reflexivity].
  - cbn [LDL.ds]. now rewrite tbf_val.
  - cbn [LDL.ds]. rewrite tbf_val. now destruct (tval A T t k), (lsat h T g k).
  - cbn [LDL.ds]. apply orb_comm.
  - cbn [LDL.ds]. rewrite negb_orb. apply andb_comm.
  - reflexivity.
  - cbn [LDL.ds]. f_equal. apply (LDLext.ds_ext_h A h T); [exact Hk|]. intros j _. now rewrite negb_involutive.
  - rewrite finf_val. cbn [lsat]. rewrite (LDLext.star_dia_eq A h T q (lsat h T g) k Hk). unfold LDLext.fin. now destruct (k + 1 <=? h), (lsat h T g k).
  - rewrite finf_val. cbn [lsat]. rewrite (LDLext.star_box_eq A h T q (lsat h T g) k Hk). unfold LDLext.fin. now destruct (k + 1 <=? h), (lsat h T g k).
Qed.
Lemma reduce_valid h T f r k : reduce f = Some r -> k <= h -> lsat h T r k = lsat h T f k.
Proof.
  intros R Hk. destruct f; try discriminate.
  - destruct (reduce_eqs p f) as [E _]. rewrite E in R. injection R as <-. apply (built_valid h T p f k Hk).
  - destruct (reduce_eqs p f) as [_ E]. rewrite E in R. injection R as <-. apply (built_valid h T p f k Hk).
Qed.
Lemma ev_nlit T v l : ev T v (nlit l) = negb (ev T v l).
Proof. destruct l as [[|] x]; unfold ev, nlit; cbn; [reflexivity|now rewrite negb_involutive]. Qed.
Lemma ev_lconst T v b : v 0 = false -> ev T v (lconst b) = b.
Proof. intros V. destruct b; unfold ev, lconst, ltrue, lfalse; cbn; now rewrite V. Qed.
Lemma forallb_map_ X Y (g : X -> Y) (p : Y -> bool) (l : list X) : forallb p (map g l) = forallb (fun x => p (g x)) l.
Proof. induction l as [|x l IH]; cbn; [reflexivity|now rewrite IH]. Qed.
Lemma forallb_ext_ X (p q : X -> bool) (l : list X) : (forall x, p x = q x) -> forallb p l = forallb q l.
Proof. intros E. induction l as [|x l IH]; cbn; [reflexivity|now rewrite E, IH]. Qed.
Lemma inst_holds T v m cs : (forall b, In b (inst m cs) -> forallb (ev T v) b = false) -> holds (fun x => ev T v (m x)) cs = true.
Proof.
  intros O. unfold holds. apply forallb_forall. intros c Hc. apply negb_true_iff.
  rewrite <- (O (map (fun sl => match sl with P x => m x | N x => nlit (m x) end) c)); [|unfold inst; now apply in_map].
  rewrite forallb_map_. apply forallb_ext_. intros [x|x]; cbn [evl]; [reflexivity|now rewrite ev_nlit].
Qed.
Lemma eqb_true a b : Bool.eqb a b = true -> a = b.  Proof. destruct a, b; cbn; congruence. Qed.
Lemma bool_group_spec T v op l lx ly : (forall b, In b (inst (lmap l lx ly lfalse) (boolean_clauses_gen op)) -> forallb (ev T v) b = false) ->
  ev T v l = bool_spec op (ev T v lx) (ev T v ly).
Proof. intros O. apply inst_holds in O. rewrite boolean_clauses_spec in O. cbn [lmap] in O. now apply eqb_true. Qed.
Lemma tel_group_spec T v op has l ll lr lp : (forall b, In b (inst (lmap l ll lr lp) (tel_clauses_gen op has)) -> forallb (ev T v) b = false) ->
  ev T v l = tel_spec op has (ev T v ll) (ev T v lr) (ev T v lp).
Proof. intros O. apply inst_holds in O. rewrite tel_clauses_spec in O. cbn [lmap] in O. now apply eqb_true. Qed.
Lemma eq_group_spec T v l lx : (forall b, In b (inst (lmap l lfalse lx lfalse) make_equal_cl_gen) -> forallb (ev T v) b = false) -> ev T v l = ev T v lx.
Proof. intros O. apply inst_holds in O. rewrite make_equal_spec in O. cbn [lmap] in O. now apply eqb_true. Qed.
Lemma tel_spec_nolhs op l r p : tel_spec op false l r p = tel_spec op false false r p.
Proof. destruct op; reflexivity. Qed.
(* what combine builds has the one-step meaning of the class *)
Lemma combine_sem T v f k ls c : v 0 = false -> combine f k ls = Some c ->
  match c with
  | CAlias l0 => ev T v l0 = sem T f k (map (ev T v) ls)
  | CDefine cs => forall l, (forall b, In b (cs l) -> forallb (ev T v) b = false) -> ev T v l = sem T f k (map (ev T v) ls)
  end.
Proof.
  intros V C. destruct f as [a|b|x|op x y|n w x|x|n w x|u l r|u r|u l r|u r|p g|p g]; cbn [combine] in C.
  - destruct ls; [|discriminate]. inversion C; subst. reflexivity.
  - destruct ls; [|discriminate]. inversion C; subst. cbn [sem]. now apply ev_lconst.
  - destruct ls as [|lx [|? ?]]; try discriminate. inversion C; subst. cbn [sem map]. apply ev_nlit.
  - destruct ls as [|lx [|ly [|? ?]]]; try discriminate. inversion C; subst. intros l0 O. cbn [sem map]. now apply bool_group_spec.
  - cbn [sem]. destruct (n <=? k).
    + destruct ls as [|lx [|? ?]]; try discriminate. inversion C; subst. reflexivity.
    + destruct ls; [|discriminate]. inversion C; subst. now apply ev_lconst.
  - destruct ls as [|lx [|? ?]]; try discriminate. inversion C; subst. reflexivity.
  - destruct ls as [|lx [|? ?]]; try discriminate. inversion C; subst. reflexivity.
  - destruct ls as [|lp [|ll [|lr [|? ?]]]]; try discriminate. inversion C; subst. intros l0 O. cbn [sem map]. now apply tel_group_spec.
  - destruct ls as [|lp [|lr [|? ?]]]; try discriminate. inversion C; subst. intros l0 O. cbn [sem map]. rewrite <- (tel_spec_nolhs _ (ev T v lfalse)). now apply tel_group_spec.
  - destruct k as [|k'].
    + destruct ls as [|lr [|? ?]]; try discriminate. inversion C; subst. reflexivity.
    + destruct ls as [|lp [|ll [|lr [|? ?]]]]; try discriminate. inversion C; subst. intros l0 O. cbn [sem map]. now apply tel_group_spec.
  - destruct k as [|k'].
    + destruct ls as [|lr [|? ?]]; try discriminate. inversion C; subst. reflexivity.
    + destruct ls as [|lp [|lr [|? ?]]]; try discriminate. inversion C; subst. intros l0 O. cbn [sem map]. rewrite <- (tel_spec_nolhs _ (ev T v lfalse)). now apply tel_group_spec.
  - destruct ls as [|lx [|? ?]]; try discriminate. inversion C; subst. intros l0 O. cbn [sem map]. symmetry. now apply eq_group_spec.
  - destruct ls as [|lx [|? ?]]; try discriminate. inversion C; subst. intros l0 O. cbn [sem map]. symmetry. now apply eq_group_spec.
Qed.
(* ---------------- infrastructure ---------------- *)
Lemma keyb_true f k p : keyb f k p = true <-> fst p = (f, k).
Proof.
  destruct p as [[f' k'] ld]. unfold keyb. cbn. destruct (bf_eq_dec f' f) as [->|N].
  - rewrite Nat.eqb_eq. split; [now intros ->|]. intros E. now inversion E.
  - split; [discriminate|]. intros E. inversion E. contradiction.
Qed.
Lemma lookup_set_same s f k l d : lookup (set_cache s f k l d) f k = Some (l, d).
Proof. unfold lookup, set_cache. cbn [cache find]. assert (keyb f k ((f, k), (l, d)) = true) as -> by now apply keyb_true. reflexivity. Qed.
Lemma lookup_set_other s f k l d f' k' : (f', k') <> (f, k) -> lookup (set_cache s f k l d) f' k' = lookup s f' k'.
Proof.
  intros N. unfold lookup, set_cache. cbn [cache find]. destruct (keyb f' k' ((f, k), (l, d))) eqn:E; [|reflexivity].
  apply keyb_true in E. cbn in E. congruence.
Qed.
Lemma key_dec (f f' : bf) (k k' : nat) : {(f', k') = (f, k)} + {(f', k') <> (f, k)}.
Proof. destruct (bf_eq_dec f' f) as [->|N]; [destruct (Nat.eq_dec k' k) as [->|N]|]; [left; reflexivity|right; congruence|right; congruence]. Qed.
Record ext (s s' : st) : Prop := {
  ext_cache : forall f k l d, lookup s f k = Some (l, d) -> exists d', lookup s' f k = Some (l, d') /\ (d = true -> d' = true);
  ext_cls : forall b, In b (cls s) -> In b (cls s');
  ext_pending : forall p, In p (pending s) -> In p (pending s');
  ext_log : forall e, In e (log s) -> In e (log s') }.
Lemma ext_refl s : ext s s.
Proof. split; eauto. Qed.
Lemma ext_trans a b c : ext a b -> ext b c -> ext a c.
Proof.
  intros [C1 L1 P1 G1] [C2 L2 P2 G2]. split; auto.
  intros f k l d E. destruct (C1 _ _ _ _ E) as [d1 [E1 H1]]. destruct (C2 _ _ _ _ E1) as [d2 [E2 H2]]. exists d2. auto.
Qed.
Lemma ext_cached s s' f k l : ext s s' -> cached s f k l -> cached s' f k l.
Proof. intros X [d E]. destruct (ext_cache _ _ X _ _ _ _ E) as [d' [E' _]]. now exists d'. Qed.
Lemma ext_all_cached s s' ds ls : ext s s' -> all_cached s ds ls -> all_cached s' ds ls.
Proof. intros X F. induction F; constructor; [now apply (ext_cached s s')|assumption]. Qed.
Lemma ext_ok_cls s s' T v : ext s s' -> ok_cls T v s' -> ok_cls T v s.
Proof. intros X O b Hb. apply O. now apply (ext_cls _ _ X). Qed.
Lemma entry_ok_ext h todo s s' f k l d : ext s s' -> entry_ok h todo s f k l d -> entry_ok h todo s' f k l d.
Proof.
  intros X [Hk EO]. split; [exact Hk|]. destruct EO as [[Hd [Ho [ls [Cs E]]]]|[Hd [n [w [x [e [Ef [El Pend]]]]]]]].
  - left. repeat split; auto. exists ls. split; [now apply (ext_all_cached s s')|]. intros T v O V. apply E; [now apply (ext_ok_cls s s')|exact V].
  - right. split; [exact Hd|]. exists n, w, x, e. repeat split; auto.
    destruct (k + n <=? h); [exact Pend|]. destruct Pend as [P|P]; [now left|right; now apply (ext_pending _ _ X)].
Qed.
Lemma Inv_update h todo s s' f k : Inv h todo s -> ext s s' ->
  (forall f' k' l d, (f', k') <> (f, k) -> lookup s' f' k' = Some (l, d) -> lookup s f' k' = Some (l, d)) ->
  (forall l d, lookup s' f k = Some (l, d) -> entry_ok h todo s' f k l d) ->
  Inv h todo s'.
Proof.
  intros I X Old New f' k' l d L. destruct (key_dec f f' k k') as [E|N].
  - inversion E; subst. now apply New.
  - apply (entry_ok_ext h todo s s'); [exact X|]. apply I. now apply Old.
Qed.
Lemma cls_set_add s key cs f k l d : cls (set_cache (add_cls s key cs) f k l d) = cs ++ cls s.
Proof. reflexivity. Qed.
Lemma ext_set_new s key f k l d cs : lookup s f k = None -> ext s (set_cache (add_cls s key cs) f k l d).
Proof.
  intros L. split.
  - intros f' k' l0 d0 E. destruct (key_dec f f' k k') as [Ek|N]; [inversion Ek; subst; congruence|].
    exists d0. split; [|auto]. rewrite lookup_set_other by exact N. exact E.
  - intros b Hb. rewrite cls_set_add. apply in_or_app. now right.
  - intros p Hp. exact Hp.
  - intros e He. change (In e (log (add_cls s key cs))). unfold add_cls. cbn [log]. destruct cs; [exact He|now right].
Qed.
Lemma fin_inv h todo s f k l d cs s' l' : Inv h todo s -> fin s f k l d cs = Some (l', s') ->
  (forall s'', ext s s'' -> s'' = set_cache (add_cls s (f, k) cs) f k l d -> entry_ok h todo s'' f k l d) ->
  l' = l /\ Inv h todo s' /\ ext s s' /\ cached s' f k l.
Proof.
  intros I F EO. unfold fin in F. destruct (lookup s f k) eqn:L; [discriminate|]. inversion F; subst l' s'. clear F.
  set (s' := set_cache (add_cls s (f, k) cs) f k l d).
  assert (ext s s') as X by now apply ext_set_new.
  split; [reflexivity|]. split; [|split; [exact X|exists d; apply lookup_set_same]].
  apply (Inv_update h todo s s' f k I X).
  - intros f' k' l0 d0 N E. unfold s' in E. rewrite lookup_set_other in E by exact N. exact E.
  - intros l0 d0 E. unfold s' in E. rewrite lookup_set_same in E. inversion E; subst. now apply EO.
Qed.
Lemma ok_cls_add T v s key cs f k l d : ok_cls T v (set_cache (add_cls s key cs) f k l d) -> forall b, In b cs -> forallb (ev T v) b = false.
Proof. intros O b Hb. apply O. rewrite cls_set_add. apply in_or_app. now left. Qed.
Lemma fresh_ext s kd key : ext s (snd (fresh s kd key)).
Proof. split; cbn; eauto. Qed.
Lemma add_pending_ext s k f : ext s (add_pending s k f).
Proof. split; cbn; eauto. Qed.
Lemma Inv_ext_same h todo s s' : Inv h todo s -> ext s s' -> (forall f k, lookup s' f k = lookup s f k) -> Inv h todo s'.
Proof. intros I X Same f k l d L. rewrite Same in L. apply (entry_ok_ext h todo s s' f k l d X). now apply I. Qed.
Lemma deps_bound h f k : k <= h -> outside h f k = false -> forall d, In d (deps f k) -> snd d <= h.
Proof.
  intros Hk Ho d Hd. destruct f as [a|b|x|op x y|n w x|x|n w x|u l r|u r|u l r|u r|p g|p g]; cbn [deps] in Hd.
  - destruct Hd.
  - destruct Hd.
  - destruct Hd as [<-|[]]. exact Hk.
  - destruct Hd as [<-|[<-|[]]]; exact Hk.
  - destruct (n <=? k); [destruct Hd as [<-|[]]; cbn; lia|destruct Hd].
  - destruct Hd as [<-|[]]. cbn. lia.
  - destruct Hd as [<-|[]]. cbn [outside] in Ho. apply negb_false_iff, Nat.leb_le in Ho. exact Ho.
  - destruct Hd as [<-|[<-|[<-|[]]]]; exact Hk.
  - destruct Hd as [<-|[<-|[]]]; exact Hk.
  - destruct k as [|k']; [destruct Hd as [<-|[]]; exact Hk|destruct Hd as [<-|[<-|[<-|[]]]]; cbn; lia].
  - destruct k as [|k']; [destruct Hd as [<-|[]]; exact Hk|destruct Hd as [<-|[<-|[]]]; cbn; lia].
  - destruct (reduce (Dia p g)); [destruct Hd as [<-|[]]; exact Hk|destruct Hd].
  - destruct (reduce (Box p g)); [destruct Hd as [<-|[]]; exact Hk|destruct Hd].
Qed.

(* ---------------- preservation of the invariant by translate ---------------- *)
Lemma go_inv (tr : bf -> nat -> st -> option (lit * st)) h todo :
  (forall g j s l s', Inv h todo s -> j <= h -> tr g j s = Some (l, s') -> Inv h todo s' /\ ext s s' /\ cached s' g j l) ->
  forall ds s ls s', Inv h todo s -> (forall d, In d ds -> snd d <= h) -> go tr ds s = Some (ls, s') ->
  Inv h todo s' /\ ext s s' /\ all_cached s' ds ls.
Proof.
  intros Htr. induction ds as [|[g j] r IH]; intros s ls s' I Bd G; cbn [go] in G.
  - inversion G; subst. split; [exact I|]. split; [apply ext_refl|constructor].
  - destruct (tr g j s) as [[l1 s1]|] eqn:T1; [|discriminate]. destruct (go tr r s1) as [[ls' s2]|] eqn:G2; [|discriminate]. inversion G; subst.
    destruct (Htr g j s l1 s1 I (Bd (g, j) (or_introl eq_refl)) T1) as [I1 [X1 C1]].
    destruct (IH s1 ls' s' I1 (fun d Hd => Bd d (or_intror Hd)) G2) as [I2 [X2 C2]].
    split; [exact I2|]. split; [eapply ext_trans; eauto|]. constructor; [cbn; now apply (ext_cached s1 s')|exact C2].
Qed.
Lemma outside_is_next h f k : outside h f k = true -> exists n w x, f = Nx n w x /\ (k + n <=? h) = false.
Proof. destruct f; cbn [outside]; try discriminate. intros O. apply negb_true_iff in O. eauto. Qed.
Theorem translate_inv fuel h todo : forall f k s l s', Inv h todo s -> k <= h -> translate fuel h f k s = Some (l, s') ->
  Inv h todo s' /\ ext s s' /\ cached s' f k l.
Proof.
  induction fuel as [|fu IH]; intros f k s l s' I Hk Tr; [discriminate|]. cbn [translate] in Tr.
  destruct (lookup s f k) as [[l0 [|]]|] eqn:L.
  - (* cached and done *) inversion Tr; subst. split; [exact I|]. split; [apply ext_refl|now exists true].
  - (* cached, not done: a placeholder of a next formula *)
    destruct (I _ _ _ _ L) as [_ [[Hd _]|[_ [n [w [x [e [-> [-> Pend]]]]]]]]]; [discriminate|].
    destruct (k + n <=? h) eqn:R.
    + apply Nat.leb_le in R. destruct (translate fu h x (k + n) s) as [[lx s1]|] eqn:Tx; [|discriminate]. inversion Tr; subst l s'. clear Tr.
      destruct (IH x (k + n) s lx s1 I R Tx) as [I1 [X1 Cx]].
      set (cs := inst (lmap (true, VX e) lfalse lx lfalse) make_equal_cl_gen).
      set (s' := set_cache (add_free (add_cls s1 (Nx n w x, k) cs) e) (Nx n w x) k (true, VX e) true).
      destruct (ext_cache _ _ X1 _ _ _ _ L) as [d1 [L1 _]].
      assert (ext s1 s') as X'.
      { split.
        - intros f' k' l1 d0 E. destruct (key_dec (Nx n w x) f' k k') as [Ek|N].
          + inversion Ek; subst. rewrite L1 in E. inversion E; subst. exists true. split; [apply lookup_set_same|auto].
          + exists d0. split; [|auto]. unfold s'. now rewrite lookup_set_other by exact N.
        - intros b Hb. change (In b (cs ++ cls s1)). apply in_or_app. now right.
        - auto.
        - intros e0 He. change (In e0 (EFree e :: log (add_cls s1 (Nx n w x, k) cs))). right. unfold add_cls. cbn [log]. destruct cs; [exact He|now right]. }
      split; [|split; [eapply ext_trans; eauto|exists true; apply lookup_set_same]].
      apply (Inv_update h todo s1 s' (Nx n w x) k I1 X').
      * intros f' k' l1 d0 N E. unfold s' in E. now rewrite lookup_set_other in E by exact N.
      * intros l1 d0 E. unfold s' in E. rewrite lookup_set_same in E. inversion E; subst. split; [exact Hk|]. left.
        split; [reflexivity|]. split; [cbn [outside]; apply negb_false_iff; now apply Nat.leb_le|].
        exists [lx]. split; [constructor; [now apply (ext_cached s1 s')|constructor]|].
        intros T v O V. cbn [sem map]. apply eq_group_spec. intros c Hc. apply (ok_cls_add T v s1 (Nx n w x, k) cs (Nx n w x) k (true, VX e) true); [exact O|exact Hc].
    + inversion Tr; subst l s'. clear Tr. split; [|split; [apply add_pending_ext|exists false; exact L]].
      apply (Inv_update h todo s (add_pending s k (Nx n w x)) (Nx n w x) k I (add_pending_ext _ _ _)).
      * intros f' k' l1 d0 _ E. exact E.
      * intros l1 d0 E. change (lookup s (Nx n w x) k = Some (l1, d0)) in E. rewrite L in E. inversion E; subst.
        split; [exact Hk|]. right. split; [reflexivity|]. exists n, w, x, e. repeat split. rewrite R. right. cbn. now left.
  - (* not cached *)
    destruct (outside h f k) eqn:O.
    + (* a next formula beyond the horizon: external placeholder, kept pending *)
      destruct (outside_is_next h f k O) as [n [w [x [-> R]]]]. cbn [fresh] in Tr.
      set (s1 := mkst (S (nxt s)) ((nxt s, KExt (Some w)) :: kinds s) (cls s) (cache s) (pending s) (ENew (nxt s) (KExt (Some w)) (Nx n w x, k) :: log s)) in *.
      set (s2 := add_pending s1 k (Nx n w x)) in *.
      assert (ext s s2) as X2 by (split; cbn; eauto).
      assert (Inv h todo s2) as I2 by (apply (Inv_ext_same h todo s s2 I X2); reflexivity).
      destruct (fin_inv h todo s2 (Nx n w x) k _ _ _ _ _ I2 Tr) as [-> [I' [X' C']]].
      * intros s'' X'' _. split; [exact Hk|]. right. split; [reflexivity|]. exists n, w, x, (nxt s). repeat split.
        rewrite R. right. apply (ext_pending _ _ X''). cbn. now left.
      * split; [exact I'|]. split; [eapply ext_trans; eauto|exact C'].
    + (* the generic case: dependencies first, then reuse a literal or define a fresh one *)
      destruct (go (translate fu h) (deps f k) s) as [[ls s1]|] eqn:G; [|discriminate].
      destruct (go_inv (translate fu h) h todo (fun g j s0 l1 s1' I0 Hj T0 => IH g j s0 l1 s1' I0 Hj T0) (deps f k) s ls s1 I (deps_bound h f k Hk O) G)
        as [I1 [X1 C1]].
      destruct (combine f k ls) as [[l0|cs]|] eqn:Cm; [| |discriminate].
      * destruct (fin_inv h todo s1 f k _ _ _ _ _ I1 Tr) as [-> [I' [X' C']]].
        -- intros s'' X'' _. split; [exact Hk|]. left. repeat split; auto. exists ls. split; [now apply (ext_all_cached s1 s'')|].
           intros T v _ V. exact (combine_sem T v f k ls (CAlias l0) V Cm).
        -- split; [exact I'|]. split; [eapply ext_trans; eauto|exact C'].
      * cbn [fresh] in Tr.
        set (s2 := mkst (S (nxt s1)) ((nxt s1, KChoice) :: kinds s1) (cls s1) (cache s1) (pending s1) (ENew (nxt s1) KChoice (f, k) :: log s1)) in *.
        assert (ext s1 s2) as X2 by (split; cbn; eauto).
        assert (Inv h todo s2) as I2 by (apply (Inv_ext_same h todo s1 s2 I1 X2); reflexivity).
        destruct (fin_inv h todo s2 f k _ _ _ _ _ I2 Tr) as [-> [I' [X' C']]].
        -- intros s'' X'' Es. split; [exact Hk|]. left. repeat split; auto. exists ls.
           split; [apply (ext_all_cached s2 s'' _ _ X''), (ext_all_cached s1 s2 _ _ X2), C1|].
           intros T v Oc V. apply (combine_sem T v f k ls (CDefine cs) V Cm). intros b Hb. subst s''.
           now apply (ok_cls_add T v s2 (f, k) (cs (true, VX (nxt s1))) f k (true, VX (nxt s1)) true Oc).
        -- split; [exact I'|]. split; [|exact C']. eapply ext_trans; [exact X1|]. eapply ext_trans; eauto.
Qed.

(* ---------------- soundness at a stable point (nothing left to process) ---------------- *)
Lemma fut_step_spec u sx sy h k : k <= h ->
  fut u sx sy (h - k) k = tel_spec (nop u) true (sx k) (sy k) (if k + 1 <=? h then fut u sx sy (h - (k + 1)) (k + 1) else negb u).
Proof.
  intros Hk. destruct (h - k) as [|d] eqn:E.
  - assert (k + 1 <=? h = false) as -> by (apply Nat.leb_gt; lia). destruct u; cbn; [now rewrite andb_false_r, orb_false_r|now rewrite orb_true_r, andb_true_r].
  - assert (k + 1 <=? h = true) as -> by (apply Nat.leb_le; lia). replace (h - (k + 1)) with d by lia. replace (k + 1) with (S k) by lia. destruct u; reflexivity.
Qed.
Lemma pst_step_spec u sx sy k : pst u sx sy (S k) = tel_spec (pop u) true (sx (S k)) (sy (S k)) (pst u sx sy k).
Proof. destruct u; reflexivity. Qed.
Lemma tel_spec_default op (u : bool) r p : (op = nop u \/ op = pop u) -> tel_spec op true u r p = tel_spec op false false r p.
Proof. intros [->| ->]; destruct u; reflexivity. Qed.
Section ValueGen.
(* from the one-step equations of the cached entries to their LTLf values (used twice: for every assignment that violates no constraint,
   and for the canonical assignment of the existence proof) *)
Variable h : nat.
Variable s : st.
Variable T : trace.
Variable v : nat -> bool.
Definition val (f : bf) (k : nat) : bool := match lookup s f k with Some (l, _) => ev T v l | None => false end.
Definition dval (d : bf * nat) : bool := val (fst d) (snd d).
Hypothesis EC : forall f k l, cached s f k l -> k <= h /\
  (val f k = lsat h T f k
   \/ (outside h f k = false /\ (forall d, In d (deps f k) -> exists l', cached s (fst d) (snd d) l') /\ val f k = sem T f k (map dval (deps f k)))
   \/ (exists n w x, f = Nx n w x /\ (k + n <=? h) = false /\ val f k = w)).
(* ---- &del: one-step facts read off EC, then the value of both modalities by induction on the path (iteration bodies consume a step) ---- *)
Definition GG (g : bf) (k0 : nat) : Prop := forall k l, k0 <= k -> cached s g k l -> val g k = lsat h T g k.
Lemma GG_mono g k0 k1 : k0 <= k1 -> GG g k0 -> GG g k1.
Proof. intros L G k l Hk C. apply (G k l); [lia|exact C]. Qed.
Definition Md (m : bool) (p : path) (g : bf) : bf := if m then Dia p g else Box p g.
Definition built (m : bool) (p : path) (g : bf) : bf := if m then dia_built p g else box_built p g.
Lemma built_shape m p g : built m p g =
  match p with
  | Skip _ => Nx 1 (negb m) g
  | Test _ t => Bin (if m then OpAnd else OpRImp) (tbf t) g
  | Choice _ p1 p2 => Bin (if m then OpOr else OpAnd) (Md m p2 g) (Md m p1 g)
  | Seq _ p1 p2 => Md m p1 (Md m p2 g)
  | Star _ q => Bin OpAnd (Bin OpRImp finf g) (Bin (if m then OpOr else OpAnd) g (Md m q (Md m p g)))
  end.
Proof. destruct m, p; reflexivity. Qed.
Lemma ec_md m p g k l : cached s (Md m p g) k l -> k <= h /\ (val (Md m p g) k = lsat h T (Md m p g) k \/ exists lr, cached s (built m p g) k lr /\ val (Md m p g) k = val (built m p g) k).
Proof.
  intros C. destruct (EC _ k l C) as [Hk [E0|[[_ [Dc E]]|[n' [w' [x' [Ef _]]]]]]]; split; try exact Hk; [now left| |destruct m; discriminate].
  right. assert (reduce (Md m p g) = Some (built m p g)) as R by (destruct (reduce_eqs p g) as [E1 E2]; destruct m; assumption).
  assert (deps (Md m p g) k = [(built m p g, k)]) as D by (destruct m; cbn [Md deps] in *; now rewrite R).
  rewrite D in Dc, E. destruct (Dc _ (or_introl eq_refl)) as [lr Cr]. exists lr. split; [exact Cr|]. rewrite E. destruct m; reflexivity.
Qed.
Lemma ec_bin op x y k l : cached s (Bin op x y) k l ->
  val (Bin op x y) k = lsat h T (Bin op x y) k \/ exists lx ly, cached s x k lx /\ cached s y k ly /\ val (Bin op x y) k = bool_spec op (val x k) (val y k).
Proof.
  intros C. destruct (EC _ k l C) as [Hk [E0|[[_ [Dc E]]|[n' [w' [x' [Ef _]]]]]]]; [now left| |discriminate]. right. cbn [deps] in Dc, E.
  destruct (Dc _ (or_introl eq_refl)) as [lx Cx]. destruct (Dc _ (or_intror (or_introl eq_refl))) as [ly Cy]. exists lx, ly. split; [exact Cx|]. split; [exact Cy|exact E].
Qed.
Lemma ec_neg x k l : cached s (Neg x) k l -> val (Neg x) k = lsat h T (Neg x) k \/ exists lx, cached s x k lx /\ val (Neg x) k = negb (val x k).
Proof.
  intros C. destruct (EC _ k l C) as [Hk [E0|[[_ [Dc E]]|[n' [w' [x' [Ef _]]]]]]]; [now left| |discriminate]. right. cbn [deps] in Dc, E.
  destruct (Dc _ (or_introl eq_refl)) as [lx Cx]. exists lx. split; [exact Cx|exact E].
Qed.
Lemma ec_nx n w x k l : cached s (Nx n w x) k l ->
  val (Nx n w x) k = lsat h T (Nx n w x) k \/ ((k + n <=? h) = true /\ exists lx, cached s x (k + n) lx /\ val (Nx n w x) k = val x (k + n)) \/ ((k + n <=? h) = false /\ val (Nx n w x) k = w).
Proof.
  intros C. destruct (EC _ k l C) as [Hk [E0|[[Ho [Dc E]]|[n' [w' [x' [Ef [R E]]]]]]]]; [now left| |].
  - right. left. cbn [outside] in Ho. apply negb_false_iff in Ho. split; [exact Ho|]. cbn [deps] in Dc, E. destruct (Dc _ (or_introl eq_refl)) as [lx Cx]. exists lx. split; [exact Cx|exact E].
  - right. right. injection Ef as <- <- <-. split; [exact R|exact E].
Qed.
Lemma ec_leaf f k l : (exists a, f = At a) \/ (exists b, f = Cst b) -> cached s f k l -> val f k = lsat h T f k.
Proof.
  intros Sh C. destruct (EC _ k l C) as [Hk [E0|[[_ [_ E]]|[n' [w' [x' [Ef _]]]]]]]; [exact E0| |destruct Sh as [[a ->]|[b ->]]; discriminate].
  destruct Sh as [[a ->]|[b ->]]; exact E.
Qed.
Lemma val_tbf t k l : cached s (tbf t) k l -> val (tbf t) k = lsat h T (tbf t) k.
Proof. intros C. apply (ec_leaf _ k l); [|exact C]. destruct t; [left|right]; eexists; reflexivity. Qed.
Lemma val_nx_from n w x k l : (forall lx, cached s x (k + n) lx -> val x (k + n) = lsat h T x (k + n)) -> cached s (Nx n w x) k l -> val (Nx n w x) k = lsat h T (Nx n w x) k.
Proof.
  intros Gx C. destruct (ec_nx n w x k l C) as [E0|[[R [lx [Cx E]]]|[R E]]]; [exact E0| |]; cbn [lsat]; rewrite R, E; [now apply (Gx lx)|reflexivity].
Qed.
Lemma val_finf k l : cached s finf k l -> val finf k = lsat h T finf k.
Proof.
  intros C. unfold finf in *. destruct (ec_neg _ k l C) as [E0|[lx [Cx E]]]; [exact E0|]. rewrite E. cbn [lsat]. f_equal.
  apply (val_nx_from 1 false (Cst true) k lx); [|exact Cx]. intros l1 C1. apply (ec_leaf _ _ l1); [right; eexists; reflexivity|exact C1].
Qed.
Lemma val_bin_from op x y k l : (forall lx, cached s x k lx -> val x k = lsat h T x k) -> (forall ly, cached s y k ly -> val y k = lsat h T y k) ->
  cached s (Bin op x y) k l -> val (Bin op x y) k = lsat h T (Bin op x y) k.
Proof. intros Gx Gy C. destruct (ec_bin op x y k l C) as [E0|[lx [ly [Cx [Cy E]]]]]; [exact E0|]. rewrite E. cbn [lsat]. now rewrite (Gx lx Cx), (Gy ly Cy). Qed.
(* from the value of what was built to the value of the modality *)
Lemma md_from_built m p g k l : (forall lr, cached s (built m p g) k lr -> val (built m p g) k = lsat h T (built m p g) k) ->
  cached s (Md m p g) k l -> val (Md m p g) k = lsat h T (Md m p g) k.
Proof.
  intros Gb C. destruct (ec_md m p g k l C) as [Hk [E0|[lr [Cr E]]]]; [exact E0|]. rewrite E, (Gb lr Cr).
  destruct (built_valid h T p g k Hk) as [V1 V2]. destruct m; [exact V1|exact V2].
Qed.
Lemma cached_le f k l : cached s f k l -> k <= h.
Proof. intros C. now destruct (EC _ k l C). Qed.
Lemma path_val : forall p, wfp p = true -> forall m g k0,
  (GG g k0 -> GG (Md m p g) k0) /\ (consuming p = true -> GG g (S k0) -> GG (Md m p g) k0).
Proof.
  induction p as [|t|p1 IH1 p2 IH2|p1 IH1 p2 IH2|q IHq]; intros W m g k0.
  - (* skip: one step, then the continuation *)
    assert (GG g (S k0) -> GG (Md m (Skip A) g) k0) as X.
    { intros G k l Hk C. apply (md_from_built m _ g k l); [|exact C]. rewrite built_shape. intros lr Cr.
      apply (val_nx_from 1 (negb m) g k lr); [|exact Cr]. intros lx Cx. apply (G (k + 1) lx); [lia|exact Cx]. }
    split; [intros G; apply X; apply (GG_mono g k0); [lia|exact G]|intros _; exact X].
  - (* test *)
    split; [|intros Cn; discriminate Cn]. intros G k l Hk C. apply (md_from_built m _ g k l); [|exact C]. rewrite built_shape. intros lr Cr.
    apply (val_bin_from _ _ _ k lr); [intros lx; apply val_tbf|intros ly Cy; now apply (G k ly)|exact Cr].
  - (* choice *)
    cbn [LDLext.wfp] in W. apply andb_true_iff in W as [W1 W2]. destruct (IH1 W1 m g k0) as [A1 B1]. destruct (IH2 W2 m g k0) as [A2 B2].
    assert (GG (Md m p1 g) k0 -> GG (Md m p2 g) k0 -> GG (Md m (Choice A p1 p2) g) k0) as X.
    { intros G1 G2 k l Hk C. apply (md_from_built m _ g k l); [|exact C]. rewrite built_shape. intros lr Cr.
      apply (val_bin_from _ _ _ k lr); [intros lx Cx; now apply (G2 k lx)|intros ly Cy; now apply (G1 k ly)|exact Cr]. }
    split; [intros G; apply X; auto|]. cbn [LDLext.consuming]. intros Cn G. apply andb_true_iff in Cn as [C1 C2]. apply X; auto.
  - (* sequence *)
    cbn [LDLext.wfp] in W. apply andb_true_iff in W as [W1 W2].
    assert (GG (Md m p1 (Md m p2 g)) k0 -> GG (Md m (Seq A p1 p2) g) k0) as X.
    { intros G1 k l Hk C. apply (md_from_built m _ g k l); [|exact C]. rewrite built_shape. intros lr Cr. now apply (G1 k lr). }
    split.
    + intros G. apply X. apply (proj1 (IH1 W1 m (Md m p2 g) k0)). now apply (proj1 (IH2 W2 m g k0)).
    + cbn [LDLext.consuming]. intros Cn G. apply X. apply orb_true_iff in Cn as [C1|C2].
      * apply (proj2 (IH1 W1 m (Md m p2 g) k0) C1). now apply (proj1 (IH2 W2 m g (S k0))).
      * apply (proj1 (IH1 W1 m (Md m p2 g) k0)). now apply (proj2 (IH2 W2 m g k0) C2).
  - (* iteration: induction on the distance to the end of the trace; the body consumes a step *)
    cbn [LDLext.wfp] in W. apply andb_true_iff in W as [Cq Wq]. split; [|intros Cn; discriminate Cn]. intros G.
    assert (forall n k l, h - k = n -> k0 <= k -> cached s (Md m (Star A q) g) k l -> val (Md m (Star A q) g) k = lsat h T (Md m (Star A q) g) k) as X.
    { induction n as [n IHn] using lt_wf_ind. intros k l Hn Hk C. apply (md_from_built m _ g k l); [|exact C]. rewrite built_shape. intros lr Cr.
      apply (val_bin_from _ _ _ k lr); [| |exact Cr].
      - intros lx Cx. apply (val_bin_from _ _ _ k lx); [intros l1; apply val_finf|intros l2 C2; now apply (G k l2)|exact Cx].
      - intros ly Cy. apply (val_bin_from _ _ _ k ly); [intros l1 C1; now apply (G k l1)| |exact Cy].
        intros l2 C2. apply (proj2 (IHq Wq m (Md m (Star A q) g) k) Cq) with (l := l2); [|lia|exact C2].
        intros k' l' Hk' C'. pose proof (cached_le _ _ _ C') as Hh. apply (IHn (h - k')) with (l := l'); [lia|reflexivity|lia|exact C']. }
    intros k l Hk C. now apply (X (h - k) k l).
Qed.
Theorem value_gen : forall f, wfb f = true -> forall k l, cached s f k l -> val f k = lsat h T f k.
Proof.
  induction f as [a|b|x IH|op x IHx y IHy|n w x IH|x IH|n w x IH|u l IHl r IHr|u r IHr|u l IHl r IHr|u r IHr|p g IHg|p g IHg]; intros Wf k l0 C;
    cbn [wfb] in Wf; try (apply andb_true_iff in Wf as [Wf1 Wf2]); try specialize (IH Wf); try specialize (IHx Wf1); try specialize (IHy Wf2);
    try specialize (IHl Wf1); try specialize (IHr Wf2); try specialize (IHr Wf); try specialize (IHg Wf2);
    [| | | | | | | | | | |exact (proj1 (path_val p Wf1 true g 0) (fun k' l' _ C' => IHg k' l' C') k l0 (Nat.le_0_l k) C)|exact (proj1 (path_val p Wf1 false g 0) (fun k' l' _ C' => IHg k' l' C') k l0 (Nat.le_0_l k) C)];
    destruct (EC _ k l0 C) as [Hk [E0|[[Ho [Dc E]]|[n' [w' [x' [Ef [R E]]]]]]]]; try exact E0; try discriminate; try (cbn [deps] in Dc, E); cbn [lsat].
  - exact E.
  - exact E.
  - rewrite E. cbn [sem map]; unfold dval; cbn [fst snd]. destruct (Dc _ (or_introl eq_refl)) as [lx Cx]; cbn [fst snd] in Cx. now rewrite (IH _ _ Cx).
  - rewrite E. cbn [sem map]; unfold dval; cbn [fst snd]. destruct (Dc _ (or_introl eq_refl)) as [lx Cx]; cbn [fst snd] in Cx. destruct (Dc _ (or_intror (or_introl eq_refl))) as [ly Cy]; cbn [fst snd] in Cy.
    now rewrite (IHx _ _ Cx), (IHy _ _ Cy).
  - rewrite E. cbn [sem]. destruct (n <=? k); [|reflexivity]. cbn [map hd]; unfold dval; cbn [fst snd]. destruct (Dc _ (or_introl eq_refl)) as [lx Cx]; cbn [fst snd] in Cx. now rewrite (IH _ _ Cx).
  - rewrite E. cbn [sem map]; unfold dval; cbn [fst snd]. destruct (Dc _ (or_introl eq_refl)) as [lx Cx]; cbn [fst snd] in Cx. now rewrite (IH _ _ Cx).
  - cbn [outside] in Ho. apply negb_false_iff in Ho. rewrite Ho, E. cbn [sem map]; unfold dval; cbn [fst snd]. destruct (Dc _ (or_introl eq_refl)) as [lx Cx]; cbn [fst snd] in Cx. now rewrite (IH _ _ Cx).
  - injection Ef as <- <- <-. now rewrite R, E.
  - (* until / release with left operand: induction on the distance to the end of the trace *)
    clear Ho Dc E. remember (h - k) as dist eqn:Hd. revert k l0 C Hk Hd. induction dist as [dist IHd] using lt_wf_ind. intros k l0 C Hk Hd.
    destruct (EC _ k l0 C) as [_ [E0|[[_ [Dc E]]|[n' [w' [x' [Ef _]]]]]]]; [rewrite Hd; exact E0| |discriminate]. cbn [deps] in Dc, E.
    destruct (Dc _ (or_introl eq_refl)) as [lp Cp]; cbn [fst snd] in Cp. destruct (Dc _ (or_intror (or_introl eq_refl))) as [ll Cl]; cbn [fst snd] in Cl. destruct (Dc _ (or_intror (or_intror (or_introl eq_refl)))) as [lr Cr]; cbn [fst snd] in Cr.
    rewrite E, Hd. cbn [sem map]; unfold dval; cbn [fst snd]. rewrite (IHl _ _ Cl), (IHr _ _ Cr), (fut_step_spec u _ _ h k Hk). f_equal.
    destruct (EC _ k lp Cp) as [_ [E0|[[Ho' [Dc' E']]|[n' [w' [x' [Ef [R E']]]]]]]]; [rewrite E0; reflexivity| |].
    + cbn [fut_of outside] in Ho'. apply negb_false_iff in Ho'. rewrite Ho', E'. cbn [fut_of deps sem map]; unfold dval; cbn [fst snd].
      destruct (Dc' _ (or_introl eq_refl)) as [ln Cn]; cbn [fst snd] in Cn. apply Nat.leb_le in Ho'.
      apply (IHd (h - (k + 1)) ltac:(lia) (k + 1) ln Cn); lia.
    + unfold fut_of in Ef. injection Ef as <- <- <-. now rewrite R, E'.
  - clear Ho Dc E. remember (h - k) as dist eqn:Hd. revert k l0 C Hk Hd. induction dist as [dist IHd] using lt_wf_ind. intros k l0 C Hk Hd.
    destruct (EC _ k l0 C) as [_ [E0|[[_ [Dc E]]|[n' [w' [x' [Ef _]]]]]]]; [rewrite Hd; exact E0| |discriminate]. cbn [deps] in Dc, E.
    destruct (Dc _ (or_introl eq_refl)) as [lp Cp]; cbn [fst snd] in Cp. destruct (Dc _ (or_intror (or_introl eq_refl))) as [lr Cr]; cbn [fst snd] in Cr.
    rewrite E, Hd. cbn [sem map]; unfold dval; cbn [fst snd]. rewrite (IHr _ _ Cr), (fut_step_spec u _ _ h k Hk), (tel_spec_default (nop u) u) by now left. f_equal.
    destruct (EC _ k lp Cp) as [_ [E0|[[Ho' [Dc' E']]|[n' [w' [x' [Ef [R E']]]]]]]]; [rewrite E0; reflexivity| |].
    + cbn [fut_of outside] in Ho'. apply negb_false_iff in Ho'. rewrite Ho', E'. cbn [fut_of deps sem map]; unfold dval; cbn [fst snd].
      destruct (Dc' _ (or_introl eq_refl)) as [ln Cn]; cbn [fst snd] in Cn. apply Nat.leb_le in Ho'.
      apply (IHd (h - (k + 1)) ltac:(lia) (k + 1) ln Cn); lia.
    + unfold fut_of in Ef. injection Ef as <- <- <-. now rewrite R, E'.
  - (* since / trigger with left operand: induction on the state *)
    clear Ho Dc E Hk. revert l0 C. induction k as [|k IHk]; intros l0 C;
      destruct (EC _ _ l0 C) as [_ [E0|[[_ [Dc E]]|[n' [w' [x' [Ef _]]]]]]]; try exact E0; try discriminate; cbn [deps] in Dc, E.
    + rewrite E. cbn [sem map pst]; unfold dval; cbn [fst snd]. destruct (Dc _ (or_introl eq_refl)) as [lr Cr]; cbn [fst snd] in Cr. now rewrite (IHr _ _ Cr).
    + destruct (Dc _ (or_introl eq_refl)) as [lp Cp]; cbn [fst snd] in Cp. destruct (Dc _ (or_intror (or_introl eq_refl))) as [ll Cl]; cbn [fst snd] in Cl. destruct (Dc _ (or_intror (or_intror (or_introl eq_refl)))) as [lr Cr]; cbn [fst snd] in Cr.
      rewrite E. cbn [sem map]; unfold dval; cbn [fst snd]. rewrite (IHl _ _ Cl), (IHr _ _ Cr), (IHk _ Cp), pst_step_spec. reflexivity.
  - clear Ho Dc E Hk. revert l0 C. induction k as [|k IHk]; intros l0 C;
      destruct (EC _ _ l0 C) as [_ [E0|[[_ [Dc E]]|[n' [w' [x' [Ef _]]]]]]]; try exact E0; try discriminate; cbn [deps] in Dc, E.
    + rewrite E. cbn [sem map pst]; unfold dval; cbn [fst snd]. destruct (Dc _ (or_introl eq_refl)) as [lr Cr]; cbn [fst snd] in Cr. now rewrite (IHr _ _ Cr).
    + destruct (Dc _ (or_introl eq_refl)) as [lp Cp]; cbn [fst snd] in Cp. destruct (Dc _ (or_intror (or_introl eq_refl))) as [lr Cr]; cbn [fst snd] in Cr.
      rewrite E. cbn [sem map]; unfold dval; cbn [fst snd]. rewrite (IHr _ _ Cr), (IHk _ Cp), pst_step_spec, (tel_spec_default (pop u) u) by now right. reflexivity.
Qed.
End ValueGen.
Section Value.
Variable h : nat.
Variable s : st.
Hypothesis I : Inv h [] s.
Variable T : trace.
Variable v : nat -> bool.
Hypothesis Oc : ok_cls T v s.
Hypothesis Oe : ok_ext v s.
Hypothesis W : Wf s.
Lemma val_cached f k l : cached s f k l -> val s T v f k = ev T v l.
Proof. intros [d E]. unfold val. now rewrite E. Qed.
Lemma vals_of_deps ds ls : all_cached s ds ls -> map (ev T v) ls = map (dval s T v) ds.
Proof. intros F. induction F as [|d l ds ls C F IH]; cbn [map]; [reflexivity|]. unfold dval at 1. now rewrite IH, (val_cached _ _ _ C). Qed.
Lemma deps_are_cached ds ls : all_cached s ds ls -> forall d, In d ds -> exists l, cached s (fst d) (snd d) l.
Proof. intros F. induction F as [|d l ds ls C F IH]; intros d' Hd; [destruct Hd|]. destruct Hd as [<-|Hd]; [now exists l|now apply IH]. Qed.
Lemma entry_cases f k l : cached s f k l -> k <= h /\
  ((outside h f k = false /\ (forall d, In d (deps f k) -> exists l', cached s (fst d) (snd d) l') /\ val s T v f k = sem T f k (map (dval s T v) (deps f k)))
   \/ (exists n w x, f = Nx n w x /\ (k + n <=? h) = false /\ val s T v f k = w)).
Proof.
  intros [d L]. destruct (I _ _ _ _ L) as [Hk EO]. split; [exact Hk|].
  assert (val s T v f k = ev T v l) as V0 by (apply val_cached; now exists d).
  destruct EO as [[Hd [Ho [ls [Cs E]]]]|[Hd [n [w [x [e [-> [-> Pend]]]]]]]].
  - left. split; [exact Ho|]. split; [now apply (deps_are_cached _ ls)|]. rewrite V0, (E T v Oc (proj1 Oe)). f_equal. now apply vals_of_deps.
  - right. exists n, w, x. split; [reflexivity|]. destruct (k + n <=? h) eqn:R; [destruct Pend|]. split; [reflexivity|].
    rewrite V0. unfold ev. cbn. apply (proj2 Oe). exists n, x, k. now subst d.
Qed.
Theorem value_at_cached : forall f k l, cached s f k l -> val s T v f k = lsat h T f k.
Proof.
  intros f k l C. apply (value_gen h s T v) with (l := l); [|destruct C as [d L]; exact (proj1 W f k l d L)|exact C].
  intros f' k' l' C'. destruct (entry_cases f' k' l' C') as [Hk [P|Q]]; split; auto.
Qed.
End Value.
Theorem value_full h s : Inv h [] s -> Wf s -> forall T v, ok_cls T v s -> ok_ext v s -> forall f k l, cached s f k l -> ev T v l = lsat h T f k.
Proof. intros I W T v Oc Oe f k l C. rewrite <- (val_cached s T v f k l C). now apply (value_at_cached h s I T v Oc Oe W f k l). Qed.

(* ---------------- horizon step: what was pending becomes the todo list ---------------- *)
Lemma Inv_init h : Inv h [] init.
Proof. intros f k l d L. unfold lookup, init in L. cbn in L. discriminate. Qed.
Lemma Inv_next_horizon h s : Inv h [] s -> Inv (S h) (pending s) (clear_pending s).
Proof.
  intros I f k l d L. change (lookup s f k = Some (l, d)) in L. destruct (I _ _ _ _ L) as [Hk EO]. split; [lia|].
  destruct EO as [[Hd [Ho [ls [Cs E]]]]|[Hd [n [w [x [e [Ef [El Pend]]]]]]]].
  - left. split; [exact Hd|]. split.
    + destruct f; cbn [outside] in *; try reflexivity. apply negb_false_iff in Ho. apply negb_false_iff. apply Nat.leb_le in Ho. apply Nat.leb_le. lia.
    + exists ls. split; [exact Cs|]. intros T v O V. now apply E.
  - right. split; [exact Hd|]. exists n, w, x, e. repeat split; auto.
    destruct (k + n <=? h) eqn:R; [destruct Pend|]. destruct Pend as [[]|Pend].
    destruct (k + n <=? S h); [exact Pend|left; exact Pend].
Qed.
Lemma nx_resolved_or_requeued fuel h todo n w x k s l s' : Inv h todo s -> translate fuel h (Nx n w x) k s = Some (l, s') ->
  forall l0, lookup s' (Nx n w x) k = Some (l0, false) -> (k + n <=? h) = false /\ In (k, Nx n w x) (pending s').
Proof.
  intros I Tr l0 L'. destruct fuel as [|fu]; [discriminate|]. cbn [translate] in Tr.
  destruct (lookup s (Nx n w x) k) as [[l1 [|]]|] eqn:L.
  - inversion Tr; subst. congruence.
  - destruct (k + n <=? h) eqn:R.
    + destruct (translate fu h x (k + n) s) as [[lx s1]|]; [|discriminate]. inversion Tr; subst. rewrite lookup_set_same in L'. discriminate.
    + inversion Tr; subst. split; [reflexivity|]. cbn. now left.
  - cbn [outside] in Tr. destruct (k + n <=? h) eqn:R; cbn [negb] in Tr.
    + destruct (go (translate fu h) (deps (Nx n w x) k) s) as [[ls s1]|]; [|discriminate]. cbn [combine] in Tr.
      destruct ls as [|lx [|? ?]]; try discriminate. unfold fin in Tr. destruct (lookup s1 (Nx n w x) k); [discriminate|].
      inversion Tr; subst. rewrite lookup_set_same in L'. discriminate.
    + cbn [fresh] in Tr. unfold fin in Tr. match type of Tr with match ?c with _ => _ end = _ => destruct c end; [discriminate|].
      inversion Tr; subst. split; [reflexivity|]. cbn. now left.
Qed.
Definition neqb (k : nat) (f : bf) (p : nat * bf) : bool := negb ((fst p =? k) && (if bf_eq_dec (snd p) f then true else false)).
Lemma Inv_drop h todo s k f :
  Inv h todo s -> (forall n w x l0, f = Nx n w x -> lookup s f k = Some (l0, false) -> (k + n <=? h) = false /\ In (k, f) (pending s)) ->
  Inv h (filter (neqb k f) todo) s.
Proof.
  intros I Hf f' k' l d L. destruct (I _ _ _ _ L) as [Hk EO]. split; [exact Hk|].
  destruct EO as [E|[Hd [n [w [x [e [Ef [El Pend]]]]]]]]; [now left|]. right. split; [exact Hd|]. exists n, w, x, e. repeat split; auto. subst f' d.
  destruct (key_dec f (Nx n w x) k k') as [Ek|N].
  - inversion Ek; subst. destruct (Hf n w x _ eq_refl L) as [R P]. rewrite R. now right.
  - assert (neqb k f (k', Nx n w x) = true) as NB.
    { unfold neqb. cbn. destruct (Nat.eqb_spec k' k) as [->|]; [|reflexivity]. destruct (bf_eq_dec (Nx n w x) f) as [<-|]; [congruence|reflexivity]. }
    destruct (k' + n <=? h).
    + apply filter_In. now split.
    + destruct Pend as [P|P]; [left; apply filter_In; now split|now right].
Qed.
Lemma run_list_inv fuel h : forall r todo s s', Inv h todo s -> (forall p, In p todo -> In p r) -> (forall p, In p r -> fst p <= h) ->
  run_list fuel h r s = Some s' -> Inv h [] s'.
Proof.
  induction r as [|[k f] r IH]; intros todo s s' I Sub Bd Run; cbn [run_list] in Run.
  - inversion Run; subst. destruct todo as [|p t]; [exact I|destruct (Sub p (or_introl eq_refl))].
  - destruct (translate fuel h f k s) as [[l s1]|] eqn:Tr; [|discriminate].
    assert (k <= h) as Hk by (apply (Bd (k, f)); now left).
    destruct (translate_inv fuel h todo f k s l s1 I Hk Tr) as [I1 [X1 C1]].
    apply (IH (filter (neqb k f) todo) s1 s'); [| | |exact Run].
    + apply Inv_drop; [exact I1|]. intros n w x l0 -> L0. exact (nx_resolved_or_requeued fuel h todo n w x k s l s1 I Tr l0 L0).
    + intros p Hp. apply filter_In in Hp as [Hp NB]. destruct (Sub p Hp) as [<-|Hr]; [|exact Hr].
      unfold neqb in NB. cbn in NB. rewrite Nat.eqb_refl in NB. destruct (bf_eq_dec f f); [discriminate|contradiction].
    + intros p Hp. apply Bd. now right.
Qed.
Theorem theory_translate_inv fuel h s roots s' :
  Inv h [] s -> (forall p, In p (pending s) -> fst p <= S h) -> (forall p, In p roots -> fst p <= S h) ->
  theory_translate fuel (S h) roots s = Some s' -> Inv (S h) [] s'.
Proof.
  intros I Bp Br Run. unfold theory_translate in Run.
  apply (run_list_inv fuel (S h) (rev (pending s) ++ roots) (pending s) (clear_pending s) s' (Inv_next_horizon h s I)); [| |exact Run].
  - intros p Hp. apply in_or_app. left. now apply in_rev in Hp.
  - intros p Hp. apply in_app_or in Hp as [Hp|Hp]; [apply Bp; now apply in_rev|now apply Br].
Qed.
Theorem first_horizon_inv fuel roots s' : (forall p, In p roots -> fst p <= 0) -> run_list fuel 0 roots init = Some s' -> Inv 0 [] s'.
Proof. intros Br Run. apply (run_list_inv fuel 0 roots [] init s' (Inv_init 0)); [intros p []|exact Br|exact Run]. Qed.
Lemma fin_some s f k l d cs l' s' : fin s f k l d cs = Some (l', s') -> lookup s f k = None /\ l' = l /\ s' = set_cache (add_cls s (f, k) cs) f k l d.
Proof. unfold fin. destruct (lookup s f k); [discriminate|]. intros E. inversion E. auto. Qed.
(* ---------------- the normal form is kept: what translate adds to the cache is the formula itself and what it builds ---------------- *)
Lemma Wf_init : Wf init.
Proof. split; [intros f k l d L; unfold lookup, init in L; cbn in L; discriminate|intros p []]. Qed.
Lemma wfb_tbf t : wfb (tbf t) = true.  Proof. now destruct t. Qed.
Lemma built_wf p g : wfp p = true -> wfb g = true -> wfb (dia_built p g) = true /\ wfb (box_built p g) = true.
Proof.
  intros Wp Wg. destruct p as [|t|p1 p2|p1 p2|q]; cbn [dia_built box_built wfb finf LDLext.wfp] in *; rewrite ?wfb_tbf, ?Wg; cbn [andb]; try (split; reflexivity).
  - apply andb_true_iff in Wp as [W1 W2]. rewrite W1, W2. split; reflexivity.
  - apply andb_true_iff in Wp as [W1 W2]. rewrite W1, W2. split; reflexivity.
  - apply andb_true_iff in Wp as [W1 W2]. rewrite W1, W2. split; reflexivity.
Qed.
Lemma deps_wf f k : wfb f = true -> forall d, In d (deps f k) -> wfb (fst d) = true.
Proof.
  intros Wf0 d Hd. destruct f as [a|b|x|op x y|n w x|x|n w x|u l r|u r|u l r|u r|p g|p g]; cbn [deps] in Hd; cbn [wfb] in Wf0.
  - destruct Hd.
  - destruct Hd.
  - destruct Hd as [<-|[]]. exact Wf0.
  - apply andb_true_iff in Wf0 as [W1 W2]. destruct Hd as [<-|[<-|[]]]; assumption.
  - destruct (n <=? k); [destruct Hd as [<-|[]]; exact Wf0|destruct Hd].
  - destruct Hd as [<-|[]]. exact Wf0.
  - destruct Hd as [<-|[]]. exact Wf0.
  - pose proof Wf0 as W0. apply andb_true_iff in Wf0 as [W1 W2]. destruct Hd as [<-|[<-|[<-|[]]]]; cbn [fst fut_of wfb]; assumption.
  - destruct Hd as [<-|[<-|[]]]; cbn [fst fut_of wfb]; assumption.
  - pose proof Wf0 as W0. apply andb_true_iff in Wf0 as [W1 W2]. destruct k as [|k']; [destruct Hd as [<-|[]]; assumption|destruct Hd as [<-|[<-|[<-|[]]]]; cbn [fst wfb]; assumption].
  - destruct k as [|k']; [destruct Hd as [<-|[]]; assumption|destruct Hd as [<-|[<-|[]]]; cbn [fst wfb]; assumption].
  - apply andb_true_iff in Wf0 as [W1 W2]. destruct (reduce_eqs p g) as [E _]. rewrite E in Hd. destruct Hd as [<-|[]]. exact (proj1 (built_wf p g W1 W2)).
  - apply andb_true_iff in Wf0 as [W1 W2]. destruct (reduce_eqs p g) as [_ E]. rewrite E in Hd. destruct Hd as [<-|[]]. exact (proj2 (built_wf p g W1 W2)).
Qed.
Lemma Wf_set s f k l d : Wf s -> wfb f = true -> Wf (set_cache s f k l d).
Proof.
  intros [W1 W2] Wf0. split; [|exact W2]. intros f' k' l' d' L. destruct (key_dec f f' k k') as [E|N]; [injection E as -> _; exact Wf0|].
  rewrite lookup_set_other in L by exact N. exact (W1 _ _ _ _ L).
Qed.
Lemma Wf_same s s' : Wf s -> cache s' = cache s -> pending s' = pending s -> Wf s'.
Proof. intros [W1 W2] Ec Ep. split; [intros f k l d L; unfold lookup in L; rewrite Ec in L; exact (W1 f k l d L)|rewrite Ep; exact W2]. Qed.
Lemma Wf_pending s k f : Wf s -> wfb f = true -> Wf (add_pending s k f).
Proof. intros [W1 W2] Wf0. split; [exact W1|]. intros p [<-|Hp]; [exact Wf0|now apply W2]. Qed.
Lemma go_wf (tr : bf -> nat -> st -> option (lit * st)) :
  (forall g j s l s', Wf s -> wfb g = true -> tr g j s = Some (l, s') -> Wf s') ->
  forall ds s ls s', Wf s -> (forall d, In d ds -> wfb (fst d) = true) -> go tr ds s = Some (ls, s') -> Wf s'.
Proof.
  intros Ht. induction ds as [|[g j] r IH]; intros s ls s' W Wd Go; cbn [go] in Go.
  - now inversion Go; subst.
  - destruct (tr g j s) as [[l1 s1]|] eqn:T1; [|discriminate]. destruct (go tr r s1) as [[ls' s2]|] eqn:G2; [|discriminate]. inversion Go; subst.
    apply (IH s1 ls' s' (Ht g j s l1 s1 W (Wd (g, j) (or_introl eq_refl)) T1) (fun d Hd => Wd d (or_intror Hd)) G2).
Qed.
Theorem translate_wf fuel h : forall f k s l s', Wf s -> wfb f = true -> translate fuel h f k s = Some (l, s') -> Wf s'.
Proof.
  induction fuel as [|fu IH]; intros f k s l s' W Wf0 Tr; [discriminate|]. cbn [translate] in Tr.
  destruct (lookup s f k) as [[l0 [|]]|] eqn:L.
  - inversion Tr; subst. exact W.
  - destruct f as [a|b|x|op x y|n w x|x|n w x|u l1 r|u r|u l1 r|u r|p g|p g]; try (inversion Tr; subst; exact W).
    destruct (k + n <=? h).
    + destruct (translate fu h x (k + n) s) as [[lx s1]|] eqn:Tx; [|discriminate]. inversion Tr; subst l s'. clear Tr.
      pose proof (IH x (k + n) s lx s1 W Wf0 Tx) as W1. apply Wf_set; [|exact Wf0]. destruct l0 as [b0 [a0 k0|e]]; apply (Wf_same s1); auto.
    + inversion Tr; subst l s'. now apply Wf_pending.
  - destruct (outside h f k).
    + cbn [fresh] in Tr. apply fin_some in Tr as [_ [-> ->]]. apply Wf_set; [|exact Wf0]. apply (Wf_same (add_pending s k f)); [now apply Wf_pending|reflexivity|reflexivity].
    + destruct (go (translate fu h) (deps f k) s) as [[ls s1]|] eqn:Go; [|discriminate].
      pose proof (go_wf (translate fu h) (fun g j s0 l1 s1' W0 Wg T0 => IH g j s0 l1 s1' W0 Wg T0) (deps f k) s ls s1 W (deps_wf f k Wf0) Go) as W1.
      destruct (combine f k ls) as [[l0|cs]|]; [| |discriminate].
      * apply fin_some in Tr as [_ [-> ->]]. apply Wf_set; [|exact Wf0]. now apply (Wf_same s1).
      * cbn [fresh] in Tr. apply fin_some in Tr as [_ [-> ->]]. apply Wf_set; [|exact Wf0]. now apply (Wf_same s1).
Qed.
Lemma run_list_wf fuel h : forall r s s', Wf s -> (forall p, In p r -> wfb (snd p) = true) -> run_list fuel h r s = Some s' -> Wf s'.
Proof.
  induction r as [|[k f] r IH]; intros s s' W Wr Run; cbn [run_list] in Run.
  - now inversion Run; subst.
  - destruct (translate fuel h f k s) as [[l s1]|] eqn:Tr; [|discriminate].
    apply (IH s1 s' (translate_wf fuel h f k s l s1 W (Wr (k, f) (or_introl eq_refl)) Tr) (fun p Hp => Wr p (or_intror Hp)) Run).
Qed.
Theorem theory_translate_wf fuel h s roots s' : Wf s -> (forall p, In p roots -> wfb (snd p) = true) -> theory_translate fuel h roots s = Some s' -> Wf s'.
Proof.
  intros W Wr Run. unfold theory_translate in Run. apply (run_list_wf fuel h (rev (pending s) ++ roots) (clear_pending s) s'); [| |exact Run].
  - split; [exact (proj1 W)|intros p []].
  - intros p Hp. apply in_app_or in Hp as [Hp|Hp]; [apply (proj2 W); now apply in_rev|now apply Wr].
Qed.
(* the incremental theorem: after any number of horizons, every cached literal has the LTLf value of its formula at the current horizon,
   in every assignment that violates none of the emitted constraints and gives the pending placeholders their boundary values *)
Corollary incremental_full fuel h s roots s' T v :
  Inv h [] s -> Wf s -> (forall p, In p (pending s) -> fst p <= S h) -> (forall p, In p roots -> fst p <= S h /\ wfb (snd p) = true) ->
  theory_translate fuel (S h) roots s = Some s' -> ok_cls T v s' -> ok_ext v s' ->
  forall f k l, cached s' f k l -> ev T v l = lsat (S h) T f k.
Proof.
  intros I W Bp Br Run Oc Oe. apply (value_full (S h) s'); [| |exact Oc|exact Oe].
  - apply (theory_translate_inv fuel h s roots s' I Bp); [|exact Run]. intros p Hp. exact (proj1 (Br p Hp)).
  - apply (theory_translate_wf fuel (S h) s roots s' W); [|exact Run]. intros p Hp. exact (proj2 (Br p Hp)).
Qed.

(* ================= existence and uniqueness of the auxiliary assignment (ghost invariant over the event log) ================= *)
Definition own (s : st) (f : bf) (k : nat) (l : lit) : Prop := exists z kd, l = (true, VX z) /\ In (ENew z kd (f, k)) (log s).
Record Gw (s : st) : Prop := {
  g_pos : 0 < nxt s;
  g_bound : forall z kd key, In (ENew z kd key) (log s) -> 0 < z < nxt s;
  g_uniq : forall z kd key kd' key', In (ENew z kd key) (log s) -> In (ENew z kd' key') (log s) -> kd = kd' /\ key = key';
  g_all : forall z, 0 < z < nxt s -> exists kd key, In (ENew z kd key) (log s);
  g_owner : forall z kd f k, In (ENew z kd (f, k)) (log s) -> exists d, lookup s f k = Some ((true, VX z), d);
  g_shape : forall f k l d, lookup s f k = Some (l, d) ->
      (exists ls l0, d = true /\ all_cached s (deps f k) ls /\ combine f k ls = Some (CAlias l0) /\ l = l0) \/ own s f k l;
  g_cover : forall b, In b (cls s) ->
      (exists z f k ls mk, In (ENew z KChoice (f, k)) (log s) /\ all_cached s (deps f k) ls /\ combine f k ls = Some (CDefine mk) /\ In b (mk (true, VX z)))
   \/ (exists z kd n w x k lx, In (ENew z kd (Nx n w x, k)) (log s) /\ lookup s (Nx n w x) k = Some ((true, VX z), true) /\ cached s x (k + n) lx /\
         In b (inst (lmap (true, VX z) lfalse lx lfalse) make_equal_cl_gen)) }.
Lemma Gw_init : Gw init.
Proof.
  split; cbn.
  - lia.
  - intros z kd key [].
  - intros z kd key kd' key' [].
  - intros z Hz. lia.
  - intros z kd f k [].
  - intros f k l d L. unfold lookup in L. cbn in L. discriminate.
  - intros b [].
Qed.
Definition log_incl (s s' : st) := forall e, In e (log s) -> In e (log s').
Lemma own_mono s s' f k l : log_incl s s' -> own s f k l -> own s' f k l.
Proof. intros LI [z [kd [E I]]]. exists z, kd. split; [exact E|now apply LI]. Qed.
Lemma enew_add_cls s key cs z kd key' : In (ENew z kd key') (log (add_cls s key cs)) <-> In (ENew z kd key') (log s).
Proof. unfold add_cls. cbn [log]. destruct cs; [reflexivity|]. cbn. split; [intros [H|H]; [discriminate|exact H]|now right]. Qed.
Lemma log_incl_add_cls s key cs : log_incl s (add_cls s key cs).
Proof. intros e He. unfold add_cls. cbn [log]. destruct cs; [exact He|now right]. Qed.
(* the covering of old clauses and the shapes of old entries survive any extension that keeps the log *)
Lemma cover_mono s s' b : ext s s' -> log_incl s s' ->
  ((exists z f k ls mk, In (ENew z KChoice (f, k)) (log s) /\ all_cached s (deps f k) ls /\ combine f k ls = Some (CDefine mk) /\ In b (mk (true, VX z)))
   \/ (exists z kd n w x k lx, In (ENew z kd (Nx n w x, k)) (log s) /\ lookup s (Nx n w x) k = Some ((true, VX z), true) /\ cached s x (k + n) lx /\
         In b (inst (lmap (true, VX z) lfalse lx lfalse) make_equal_cl_gen))) ->
  ((exists z f k ls mk, In (ENew z KChoice (f, k)) (log s') /\ all_cached s' (deps f k) ls /\ combine f k ls = Some (CDefine mk) /\ In b (mk (true, VX z)))
   \/ (exists z kd n w x k lx, In (ENew z kd (Nx n w x, k)) (log s') /\ lookup s' (Nx n w x) k = Some ((true, VX z), true) /\ cached s' x (k + n) lx /\
         In b (inst (lmap (true, VX z) lfalse lx lfalse) make_equal_cl_gen))).
Proof.
  intros X LI [[z [f [k [ls [mk [I1 [C1 [Cm Ib]]]]]]]]|[z [kd [n [w [x [k [lx [I1 [L1 [C1 Ib]]]]]]]]]]].
  - left. exists z, f, k, ls, mk. repeat split; auto. now apply (ext_all_cached s s').
  - right. exists z, kd, n, w, x, k, lx. repeat split; auto; [|now apply (ext_cached s s')].
    destruct (ext_cache _ _ X _ _ _ _ L1) as [d' [L' Hd]]. now rewrite L', (Hd eq_refl).
Qed.
Lemma shape_mono s s' f k l d : ext s s' -> log_incl s s' ->
  ((exists ls l0, d = true /\ all_cached s (deps f k) ls /\ combine f k ls = Some (CAlias l0) /\ l = l0) \/ own s f k l) ->
  ((exists ls l0, d = true /\ all_cached s' (deps f k) ls /\ combine f k ls = Some (CAlias l0) /\ l = l0) \/ own s' f k l).
Proof.
  intros X LI [[ls [l0 [Hd [C [Cm E]]]]]|O]; [left|right; now apply (own_mono s s')].
  exists ls, l0. repeat split; auto. now apply (ext_all_cached s s').
Qed.
(* a new entry that reuses a literal *)
Lemma Gw_alias s f k ls l0 : Gw s -> lookup s f k = None -> all_cached s (deps f k) ls -> combine f k ls = Some (CAlias l0) ->
  Gw (set_cache (add_cls s (f, k) []) f k l0 true).
Proof.
  intros G L C Cm. set (s' := set_cache (add_cls s (f, k) []) f k l0 true).
  assert (ext s s') as X by now apply ext_set_new. assert (log_incl s s') as LI by (intros e He; exact He).
  split.
  - exact (g_pos s G).
  - exact (g_bound s G).
  - exact (g_uniq s G).
  - exact (g_all s G).
  - intros z kd f' k' I1. change (In (ENew z kd (f', k')) (log s)) in I1. destruct (g_owner s G z kd f' k' I1) as [d Ld].
    destruct (key_dec f f' k k') as [Ek|N]; [inversion Ek; subst; congruence|]. exists d. unfold s'. now rewrite lookup_set_other.
  - intros f' k' l d Ld. destruct (key_dec f f' k k') as [Ek|N].
    + inversion Ek; subst f' k'. unfold s' in Ld. rewrite lookup_set_same in Ld. inversion Ld; subst l d. left. exists ls, l0. repeat split; auto.
      now apply (ext_all_cached s s').
    + unfold s' in Ld. rewrite lookup_set_other in Ld by exact N. apply (shape_mono s s' f' k' l d X LI). now apply (g_shape s G).
  - intros b Hb. change (In b (cls s)) in Hb. apply (cover_mono s s' b X LI). now apply (g_cover s G).
Qed.
(* a new entry with a freshly allocated atom: choice atom with its clause group, or external placeholder *)
Lemma Gw_fresh_entry s f k kd cs d (pend : bool) :
  Gw s -> lookup s f k = None ->
  (forall b, In b cs ->
      (exists ls mk, kd = KChoice /\ all_cached s (deps f k) ls /\ combine f k ls = Some (CDefine mk) /\ In b (mk (true, VX (nxt s))))) ->
  let s1 := snd (fresh s kd (f, k)) in let s2 := if pend then add_pending s1 k f else s1 in
  Gw (set_cache (add_cls s2 (f, k) cs) f k (true, VX (nxt s)) d).
Proof.
  intros G L Hcs s1 s2. set (s' := set_cache (add_cls s2 (f, k) cs) f k (true, VX (nxt s)) d).
  assert (lookup s2 f k = None) as L2 by (unfold s2, s1; destruct pend; exact L).
  assert (ext s s2) as X2 by (unfold s2, s1; destruct pend; split; cbn; eauto).
  assert (ext s2 s') as X' by now apply ext_set_new. assert (ext s s') as X by (eapply ext_trans; eauto).
  assert (log s2 = ENew (nxt s) kd (f, k) :: log s) as Lg by (unfold s2, s1; destruct pend; reflexivity).
  assert (nxt s' = S (nxt s)) as Nx' by (unfold s', s2, s1; destruct pend; reflexivity).
  assert (forall z kd' key, In (ENew z kd' key) (log s') <-> (ENew z kd' key = ENew (nxt s) kd (f, k) \/ In (ENew z kd' key) (log s))) as Ln.
  { intros z kd' key. unfold s'. change (log (set_cache (add_cls s2 (f, k) cs) f k (true, VX (nxt s)) d)) with (log (add_cls s2 (f, k) cs)).
    rewrite enew_add_cls, Lg. cbn. split; intros [H|H]; auto. }
  assert (log_incl s s') as LI.
  { intros e He. unfold s'. change (log (set_cache (add_cls s2 (f, k) cs) f k (true, VX (nxt s)) d)) with (log (add_cls s2 (f, k) cs)).
    apply log_incl_add_cls. rewrite Lg. now right. }
  pose proof (g_pos s G) as Pos.
  split.
  - rewrite Nx'. lia.
  - intros z kd' key I1. apply Ln in I1 as [E|I1]; [inversion E; subst; rewrite Nx'; lia|]. pose proof (g_bound s G z kd' key I1). rewrite Nx'. lia.
  - intros z kd1 key1 kd2 key2 I1 I2. apply Ln in I1 as [E1|I1]; apply Ln in I2 as [E2|I2].
    + inversion E1; inversion E2; subst. auto.
    + inversion E1; subst. pose proof (g_bound s G _ _ _ I2). lia.
    + inversion E2; subst. pose proof (g_bound s G _ _ _ I1). lia.
    + exact (g_uniq s G z kd1 key1 kd2 key2 I1 I2).
  - intros z Hz. rewrite Nx' in Hz. destruct (Nat.eq_dec z (nxt s)) as [->|Ne].
    + exists kd, (f, k). apply Ln. now left.
    + destruct (g_all s G z ltac:(lia)) as [kd' [key I1]]. exists kd', key. apply Ln. now right.
  - intros z kd' f' k' I1. apply Ln in I1 as [E|I1].
    + inversion E; subst. exists d. apply lookup_set_same.
    + destruct (g_owner s G z kd' f' k' I1) as [d' Ld]. destruct (key_dec f f' k k') as [Ek|N]; [inversion Ek; subst; congruence|].
      destruct (ext_cache _ _ X2 _ _ _ _ Ld) as [d2 [Ld2 _]]. exists d2. unfold s'. now rewrite lookup_set_other.
  - intros f' k' l d' Ld. destruct (key_dec f f' k k') as [Ek|N].
    + inversion Ek; subst f' k'. unfold s' in Ld. rewrite lookup_set_same in Ld. inversion Ld; subst l d'. right. exists (nxt s), kd. split; [reflexivity|]. apply Ln. now left.
    + unfold s' in Ld. rewrite lookup_set_other in Ld by exact N.
      assert (lookup s f' k' = Some (l, d')) as Ls by (unfold s2, s1 in Ld; destruct pend; exact Ld).
      apply (shape_mono s s' f' k' l d' X LI). now apply (g_shape s G).
  - intros b Hb. unfold s' in Hb. rewrite cls_set_add in Hb. apply in_app_or in Hb as [Hb|Hb].
    + destruct (Hcs b Hb) as [ls [mk [-> [C [Cm Ib]]]]]. left. exists (nxt s), f, k, ls, mk. repeat split; auto; [apply Ln; now left|now apply (ext_all_cached s s')].
    + assert (In b (cls s)) as Hb' by (unfold s2, s1 in Hb; destruct pend; exact Hb).
      apply (cover_mono s s' b X LI). now apply (g_cover s G).
Qed.
(* a placeholder is resolved: its entry is completed and tied to the literal of its argument *)
Lemma Gw_resolve s n w x k e lx d1 : Gw s -> lookup s (Nx n w x) k = Some ((true, VX e), d1) -> own s (Nx n w x) k (true, VX e) -> cached s x (k + n) lx ->
  Gw (set_cache (add_free (add_cls s (Nx n w x, k) (inst (lmap (true, VX e) lfalse lx lfalse) make_equal_cl_gen)) e) (Nx n w x) k (true, VX e) true).
Proof.
  intros G L Ow Cx. set (cs := inst (lmap (true, VX e) lfalse lx lfalse) make_equal_cl_gen).
  set (s' := set_cache (add_free (add_cls s (Nx n w x, k) cs) e) (Nx n w x) k (true, VX e) true).
  assert (ext s s') as X.
  { split.
    - intros f' k' l1 d0 E. destruct (key_dec (Nx n w x) f' k k') as [Ek|N].
      + inversion Ek; subst. rewrite L in E. inversion E; subst. exists true. split; [apply lookup_set_same|auto].
      + exists d0. split; [|auto]. unfold s'. now rewrite lookup_set_other by exact N.
    - intros b Hb. change (In b (cs ++ cls s)). apply in_or_app. now right.
    - auto.
    - intros e0 He. change (In e0 (EFree e :: log (add_cls s (Nx n w x, k) cs))). right. unfold add_cls. cbn [log]. destruct cs; [exact He|now right]. }
  assert (forall z kd key, In (ENew z kd key) (log s') <-> In (ENew z kd key) (log s)) as Ln.
  { intros z kd key. unfold s'. change (log (set_cache (add_free (add_cls s (Nx n w x, k) cs) e) (Nx n w x) k (true, VX e) true)) with (EFree e :: log (add_cls s (Nx n w x, k) cs)).
    cbn [In]. rewrite enew_add_cls. split; [intros [H|H]; [discriminate|exact H]|now right]. }
  assert (log_incl s s') as LI.
  { intros ev0 He. unfold s'. change (log (set_cache (add_free (add_cls s (Nx n w x, k) cs) e) (Nx n w x) k (true, VX e) true)) with (EFree e :: log (add_cls s (Nx n w x, k) cs)).
    right. now apply log_incl_add_cls. }
  split.
  - exact (g_pos s G).
  - intros z kd key I1. apply Ln in I1. exact (g_bound s G z kd key I1).
  - intros z kd1 key1 kd2 key2 I1 I2. apply Ln in I1. apply Ln in I2. exact (g_uniq s G z kd1 key1 kd2 key2 I1 I2).
  - intros z Hz. destruct (g_all s G z Hz) as [kd [key I1]]. exists kd, key. now apply Ln.
  - intros z kd f' k' I1. apply Ln in I1. destruct (g_owner s G z kd f' k' I1) as [d Ld]. destruct (ext_cache _ _ X _ _ _ _ Ld) as [d' [Ld' _]]. now exists d'.
  - intros f' k' l d Ld. destruct (key_dec (Nx n w x) f' k k') as [Ek|N].
    + inversion Ek; subst f' k'. unfold s' in Ld. rewrite lookup_set_same in Ld. inversion Ld; subst l d. right. now apply (own_mono s s').
    + unfold s' in Ld. rewrite lookup_set_other in Ld by exact N. apply (shape_mono s s' f' k' l d X LI). now apply (g_shape s G).
  - intros b Hb. change (In b (cs ++ cls s)) in Hb. apply in_app_or in Hb as [Hb|Hb].
    + destruct Ow as [z [kd [Ez Iz]]]. inversion Ez; subst z. right. exists e, kd, n, w, x, k, lx. split; [now apply LI|]. split; [apply lookup_set_same|]. split; [now apply (ext_cached s s')|exact Hb].
    + apply (cover_mono s s' b X LI). now apply (g_cover s G).
Qed.
Lemma Gw_same s s' : Gw s -> nxt s' = nxt s -> log s' = log s -> cls s' = cls s -> cache s' = cache s -> Gw s'.
Proof.
  intros G En El Ec Ek. assert (forall f k, lookup s' f k = lookup s f k) as Lk by (intros; unfold lookup; now rewrite Ek).
  assert (forall f k l, cached s' f k l <-> cached s f k l) as Ck by (intros; unfold cached; now rewrite Lk).
  assert (forall ds ls, all_cached s ds ls -> all_cached s' ds ls) as Ak.
  { intros ds ls F. induction F; constructor; [now apply Ck|assumption]. }
  split.
  - rewrite En. exact (g_pos s G).
  - intros z kd key. rewrite El, En. apply (g_bound s G).
  - intros z kd key kd' key'. rewrite El. apply (g_uniq s G).
  - intros z. rewrite En, El. apply (g_all s G).
  - intros z kd f k. rewrite El, Lk. apply (g_owner s G).
  - intros f k l d. rewrite Lk. intros Ld. destruct (g_shape s G f k l d Ld) as [[ls [l0 [Hd [C [Cm E]]]]]|[z [kd [E I1]]]].
    + left. exists ls, l0. repeat split; auto.
    + right. exists z, kd. split; [exact E|now rewrite El].
  - intros b. rewrite Ec. intros Hb. destruct (g_cover s G b Hb) as [[z [f [k [ls [mk [I1 [C1 [Cm Ib]]]]]]]]|[z [kd [n [w [x [k [lx [I1 [L1 [C1 Ib]]]]]]]]]]].
    + left. exists z, f, k, ls, mk. rewrite El. repeat split; auto.
    + right. exists z, kd, n, w, x, k, lx. rewrite El, Lk. repeat split; auto. now apply Ck.
Qed.

(* ---------------- preservation of the ghost invariant ---------------- *)
Lemma go_gw (tr : bf -> nat -> st -> option (lit * st)) h todo :
  (forall g j s l s', Inv h todo s -> j <= h -> tr g j s = Some (l, s') -> Inv h todo s' /\ ext s s' /\ cached s' g j l) ->
  (forall g j s l s', Inv h todo s -> Gw s -> j <= h -> tr g j s = Some (l, s') -> Gw s') ->
  forall ds s ls s', Inv h todo s -> Gw s -> (forall d, In d ds -> snd d <= h) -> go tr ds s = Some (ls, s') -> Gw s'.
Proof.
  intros Hi Hg. induction ds as [|[g j] r IH]; intros s ls s' I G Bd Go; cbn [go] in Go.
  - now inversion Go; subst.
  - destruct (tr g j s) as [[l1 s1]|] eqn:T1; [|discriminate]. destruct (go tr r s1) as [[ls' s2]|] eqn:G2; [|discriminate]. inversion Go; subst.
    pose proof (Bd (g, j) (or_introl eq_refl)) as Hj. destruct (Hi g j s l1 s1 I Hj T1) as [I1 _].
    apply (IH s1 ls' s' I1 (Hg g j s l1 s1 I G Hj T1) (fun d Hd => Bd d (or_intror Hd)) G2).
Qed.
Theorem translate_gw fuel h todo : forall f k s l s', Inv h todo s -> Gw s -> k <= h -> translate fuel h f k s = Some (l, s') -> Gw s'.
Proof.
  induction fuel as [|fu IH]; intros f k s l s' I G Hk Tr; [discriminate|]. cbn [translate] in Tr.
  destruct (lookup s f k) as [[l0 [|]]|] eqn:L.
  - inversion Tr; subst. exact G.
  - destruct (I _ _ _ _ L) as [_ [[Hd _]|[_ [n [w [x [e [-> [-> Pend]]]]]]]]]; [discriminate|].
    assert (own s (Nx n w x) k (true, VX e)) as Ow by (destruct (g_shape s G _ _ _ _ L) as [[ls [l1 [Hd _]]]|O]; [discriminate|exact O]).
    destruct (k + n <=? h) eqn:R.
    + apply Nat.leb_le in R. destruct (translate fu h x (k + n) s) as [[lx s1]|] eqn:Tx; [|discriminate]. inversion Tr; subst l s'. clear Tr.
      destruct (translate_inv fu h todo x (k + n) s lx s1 I R Tx) as [I1 [X1 Cx]]. pose proof (IH x (k + n) s lx s1 I G R Tx) as G1.
      destruct (ext_cache _ _ X1 _ _ _ _ L) as [d1 [L1 _]].
      apply (Gw_resolve s1 n w x k e lx d1 G1 L1); [|exact Cx]. apply (own_mono s s1); [exact (ext_log _ _ X1)|exact Ow].
    + inversion Tr; subst l s'. apply (Gw_same s); auto.
  - destruct (outside h f k) eqn:O.
    + destruct (outside_is_next h f k O) as [n [w [x [-> R]]]]. cbn [fresh] in Tr. apply fin_some in Tr as [L2 [-> ->]].
      apply (Gw_fresh_entry s (Nx n w x) k (KExt (Some w)) [] false true G L). intros b [].
    + destruct (go (translate fu h) (deps f k) s) as [[ls s1]|] eqn:Go; [|discriminate].
      destruct (go_inv (translate fu h) h todo (fun g j s0 l1 s1' I0 Hj T0 => translate_inv fu h todo g j s0 l1 s1' I0 Hj T0) (deps f k) s ls s1 I (deps_bound h f k Hk O) Go)
        as [I1 [X1 C1]].
      pose proof (go_gw (translate fu h) h todo (fun g j s0 l1 s1' I0 Hj T0 => translate_inv fu h todo g j s0 l1 s1' I0 Hj T0)
                    (fun g j s0 l1 s1' I0 G0 Hj T0 => IH g j s0 l1 s1' I0 G0 Hj T0) (deps f k) s ls s1 I G (deps_bound h f k Hk O) Go) as G1.
      destruct (combine f k ls) as [[l0|cs]|] eqn:Cm; [| |discriminate].
      * apply fin_some in Tr as [L1 [-> ->]]. now apply (Gw_alias s1 f k ls l0).
      * cbn [fresh] in Tr. apply fin_some in Tr as [L1 [-> ->]].
        apply (Gw_fresh_entry s1 f k KChoice (cs (true, VX (nxt s1))) true false G1 L1). intros b Hb. exists ls, cs. auto.
Qed.
Lemma run_list_gw fuel h : forall r todo s s', Inv h todo s -> Gw s -> (forall p, In p todo -> In p r) -> (forall p, In p r -> fst p <= h) ->
  run_list fuel h r s = Some s' -> Gw s'.
Proof.
  induction r as [|[k f] r IH]; intros todo s s' I G Sub Bd Run; cbn [run_list] in Run.
  - now inversion Run; subst.
  - destruct (translate fuel h f k s) as [[l s1]|] eqn:Tr; [|discriminate].
    assert (k <= h) as Hk by (apply (Bd (k, f)); now left).
    destruct (translate_inv fuel h todo f k s l s1 I Hk Tr) as [I1 [X1 C1]].
    apply (IH (filter (neqb k f) todo) s1 s'); [| | | |exact Run].
    + apply Inv_drop; [exact I1|]. intros n w x l0 -> L0. exact (nx_resolved_or_requeued fuel h todo n w x k s l s1 I Tr l0 L0).
    + exact (translate_gw fuel h todo f k s l s1 I G Hk Tr).
    + intros p Hp. apply filter_In in Hp as [Hp NB]. destruct (Sub p Hp) as [<-|Hr]; [|exact Hr].
      unfold neqb in NB. cbn in NB. rewrite Nat.eqb_refl in NB. destruct (bf_eq_dec f f); [discriminate|contradiction].
    + intros p Hp. apply Bd. now right.
Qed.
Theorem theory_translate_gw fuel h s roots s' :
  Inv h [] s -> Gw s -> (forall p, In p (pending s) -> fst p <= S h) -> (forall p, In p roots -> fst p <= S h) ->
  theory_translate fuel (S h) roots s = Some s' -> Gw s'.
Proof.
  intros I G Bp Br Run. unfold theory_translate in Run.
  apply (run_list_gw fuel (S h) (rev (pending s) ++ roots) (pending s) (clear_pending s) s' (Inv_next_horizon h s I)); [| | |exact Run].
  - apply (Gw_same s); auto.
  - intros p Hp. apply in_or_app. left. now apply in_rev in Hp.
  - intros p Hp. apply in_app_or in Hp as [Hp|Hp]; [apply Bp; now apply in_rev|now apply Br].
Qed.

(* ---------------- the canonical assignment: every auxiliary atom gets the LTLf value of the entry that allocated it ---------------- *)
Definition is_new (z : nat) (e : event) : bool := match e with ENew n _ _ => n =? z | _ => false end.
Definition owner_of (s : st) (z : nat) : option (bf * nat) := match find (is_new z) (log s) with Some (ENew _ _ key) => Some key | _ => None end.
Definition vstar (h : nat) (T : trace) (s : st) (z : nat) : bool := match owner_of s z with Some (f, k) => lsat h T f k | None => false end.
Lemma owner_of_in s z kd key : Gw s -> In (ENew z kd key) (log s) -> owner_of s z = Some key.
Proof.
  intros G I1. unfold owner_of. destruct (find (is_new z) (log s)) as [e|] eqn:F.
  - apply find_some in F as [Ie Ne]. destruct e as [n kd' key'| |]; try discriminate. cbn in Ne. apply Nat.eqb_eq in Ne. subst n.
    destruct (g_uniq s G z kd key kd' key' I1 Ie) as [_ ->]. reflexivity.
  - exfalso. pose proof (find_none _ _ F _ I1) as N. cbn in N. now rewrite Nat.eqb_refl in N.
Qed.
Lemma vstar_zero h T s : Gw s -> vstar h T s 0 = false.
Proof.
  intros G. unfold vstar, owner_of. destruct (find (is_new 0) (log s)) as [e|] eqn:F; [|reflexivity].
  apply find_some in F as [Ie Ne]. destruct e as [n kd key| |]; try discriminate. cbn in Ne. apply Nat.eqb_eq in Ne. subst n.
  pose proof (g_bound s G 0 kd key Ie). lia.
Qed.
Lemma vstar_own h T s f k z kd : Gw s -> In (ENew z kd (f, k)) (log s) -> ev T (vstar h T s) (true, VX z) = lsat h T f k.
Proof. intros G I1. unfold ev. cbn. unfold vstar. now rewrite (owner_of_in s z kd (f, k) G I1). Qed.
(* the LTLf semantics satisfies the one-step equations *)
Lemma sem_sound h T f k : k <= h -> outside h f k = false -> lsat h T f k = sem T f k (map (fun d => lsat h T (fst d) (snd d)) (deps f k)).
Proof.
  intros Hk Ho. destruct f as [a|b|x|op x y|n w x|x|n w x|u l r|u r|u l r|u r|p g|p g];
    [| | | | | | | | | | |destruct (reduce_eqs p g) as [E _]; cbn [deps]; rewrite E; cbn [map sem fst snd]; symmetry; exact (reduce_valid h T _ _ k E Hk)
                          |destruct (reduce_eqs p g) as [_ E]; cbn [deps]; rewrite E; cbn [map sem fst snd]; symmetry; exact (reduce_valid h T _ _ k E Hk)];
    cbn [lsat deps sem map fst snd]; try reflexivity.
  - destruct (n <=? k); reflexivity.
  - cbn [outside] in Ho. apply negb_false_iff in Ho. now rewrite Ho.
  - rewrite (fut_step_spec u _ _ h k Hk). unfold fut_of. cbn [lsat]. reflexivity.
  - rewrite (fut_step_spec u _ _ h k Hk), (tel_spec_default (nop u) u) by now left. unfold fut_of. cbn [lsat]. reflexivity.
  - destruct k as [|k']; cbn [deps map sem fst snd]; [reflexivity|]. now rewrite pst_step_spec.
  - destruct k as [|k']; cbn [deps map sem fst snd]; [reflexivity|]. now rewrite pst_step_spec, (tel_spec_default (pop u) u) by now right.
Qed.
(* converse reading of the clause groups: an assignment that gives the literal its one-step value violates none of the group's constraints *)
Lemma holds_inst T v m cs : holds (fun x => ev T v (m x)) cs = true -> forall b, In b (inst m cs) -> forallb (ev T v) b = false.
Proof.
  intros Ho b Hb. unfold inst in Hb. apply in_map_iff in Hb as [c [<- Hc]]. unfold holds in Ho. rewrite forallb_forall in Ho.
  specialize (Ho c Hc). apply negb_true_iff in Ho. rewrite <- Ho. rewrite forallb_map_. apply forallb_ext_. intros [x|x]; cbn [evl]; [reflexivity|now rewrite ev_nlit].
Qed.
Lemma eqb_refl_true a b : a = b -> Bool.eqb a b = true.  Proof. intros ->. apply Bool.eqb_reflx. Qed.
Lemma combine_holds T v f k ls mk l : combine f k ls = Some (CDefine mk) -> ev T v l = sem T f k (map (ev T v) ls) ->
  forall b, In b (mk l) -> forallb (ev T v) b = false.
Proof.
  intros C E. destruct f as [a|b0|x|op x y|n w x|x|n w x|u l1 r|u r|u l1 r|u r|p g|p g]; cbn [combine] in C.
  - destruct ls; discriminate.
  - destruct ls; discriminate.
  - destruct ls as [|lx [|? ?]]; discriminate.
  - destruct ls as [|lx [|ly [|? ?]]]; try discriminate. inversion C; subst mk. cbn [sem map] in E. apply holds_inst. rewrite boolean_clauses_spec. cbn [lmap]. now apply eqb_refl_true.
  - destruct (n <=? k); [destruct ls as [|lx [|? ?]]|destruct ls]; discriminate.
  - destruct ls as [|lx [|? ?]]; discriminate.
  - destruct ls as [|lx [|? ?]]; discriminate.
  - destruct ls as [|lp [|ll [|lr [|? ?]]]]; try discriminate. inversion C; subst mk. cbn [sem map] in E. apply holds_inst. rewrite tel_clauses_spec. cbn [lmap]. now apply eqb_refl_true.
  - destruct ls as [|lp [|lr [|? ?]]]; try discriminate. inversion C; subst mk. cbn [sem map] in E. apply holds_inst. rewrite tel_clauses_spec. cbn [lmap].
    apply eqb_refl_true. rewrite E. apply tel_spec_nolhs.
  - destruct k as [|k']; [destruct ls as [|lr [|? ?]]; discriminate|]. destruct ls as [|lp [|ll [|lr [|? ?]]]]; try discriminate. inversion C; subst mk. cbn [sem map] in E.
    apply holds_inst. rewrite tel_clauses_spec. cbn [lmap]. now apply eqb_refl_true.
  - destruct k as [|k']; [destruct ls as [|lr [|? ?]]; discriminate|]. destruct ls as [|lp [|lr [|? ?]]]; try discriminate. inversion C; subst mk. cbn [sem map] in E.
    apply holds_inst. rewrite tel_clauses_spec. cbn [lmap]. apply eqb_refl_true. rewrite E. apply tel_spec_nolhs.
  - destruct ls as [|lx [|? ?]]; try discriminate. injection C as <-. cbn [sem map] in E. change (forall b, In b (inst (lmap lx lfalse l lfalse) make_equal_cl_gen) -> forallb (ev T v) b = false).
    apply holds_inst. rewrite make_equal_spec. cbn [lmap]. now apply eqb_refl_true.
  - destruct ls as [|lx [|? ?]]; try discriminate. injection C as <-. cbn [sem map] in E. change (forall b, In b (inst (lmap lx lfalse l lfalse) make_equal_cl_gen) -> forallb (ev T v) b = false).
    apply holds_inst. rewrite make_equal_spec. cbn [lmap]. now apply eqb_refl_true.
Qed.
Lemma define_not_next f k ls mk : combine f k ls = Some (CDefine mk) -> forall h, outside h f k = false.
Proof. intros C h. destruct f; try reflexivity. cbn [combine] in C. destruct ls as [|lx [|? ?]]; discriminate. Qed.
Section Exist.
Variable h : nat.
Variable s : st.
Hypothesis I : Inv h [] s.
Hypothesis G : Gw s.
Hypothesis W : Wf s.
Variable T : trace.
Notation vs := (vstar h T s).
Lemma vstar_values : forall f k l, cached s f k l -> ev T vs l = lsat h T f k.
Proof.
  intros f k l C. rewrite <- (val_cached s T vs f k l C). apply (value_gen h s T vs) with (l := l); [|destruct C as [d0 L0]; exact (proj1 W f k l d0 L0)|exact C]. clear f k l C.
  intros f k l [d L]. destruct (I _ _ _ _ L) as [Hk EO]. split; [exact Hk|].
  assert (val s T vs f k = ev T vs l) as V0 by (apply val_cached; now exists d).
  destruct (g_shape s G f k l d L) as [[ls [l0 [Hd [Cs [Cm ->]]]]]|[z [kd [-> I1]]]].
  - right. left. destruct EO as [[_ [Ho _]]|[Hd' _]]; [|congruence]. split; [exact Ho|]. split; [now apply (deps_are_cached s _ ls)|].
    rewrite V0. rewrite (combine_sem T vs f k ls (CAlias l0) (vstar_zero h T s G) Cm). f_equal. now apply vals_of_deps.
  - left. rewrite V0. now apply (vstar_own h T s f k z kd).
Qed.
Lemma vstar_values_list ds ls : all_cached s ds ls -> map (fun d => lsat h T (fst d) (snd d)) ds = map (ev T vs) ls.
Proof. intros F. induction F as [|dp l0 ds ls0 C F IH]; cbn [map]; [reflexivity|]. now rewrite IH, (vstar_values _ _ _ C). Qed.
Theorem exists_full : ok_cls T vs s /\ ok_ext vs s.
Proof.
  split.
  - intros b Hb. destruct (g_cover s G b Hb) as [[z [f [k [ls [mk [I1 [C1 [Cm Ib]]]]]]]]|[z [kd [n [w [x [k [lx [I1 [L1 [C1 Ib]]]]]]]]]]].
    + destruct (g_owner s G z KChoice f k I1) as [d L]. destruct (I _ _ _ _ L) as [Hk _].
      apply (combine_holds T vs f k ls mk (true, VX z) Cm); [|exact Ib].
      rewrite (vstar_own h T s f k z KChoice G I1), (sem_sound h T f k Hk (define_not_next f k ls mk Cm h)). f_equal.
      now apply vstar_values_list.
    + destruct (I _ _ _ _ L1) as [Hk [[_ [Ho _]]|[Hd _]]]; [|discriminate]. cbn [outside] in Ho. apply negb_false_iff in Ho.
      apply (holds_inst T vs (lmap (true, VX z) lfalse lx lfalse) make_equal_cl_gen); [|exact Ib]. rewrite make_equal_spec. cbn [lmap]. apply eqb_refl_true.
      rewrite (vstar_own h T s (Nx n w x) k z kd G I1), (vstar_values _ _ _ C1). cbn [lsat]. now rewrite Ho.
  - split; [now apply vstar_zero|]. intros e w [n [x [k L]]]. destruct (I _ _ _ _ L) as [Hk [[Hd _]|[_ [n' [w' [x' [e' [Ef [El Pend]]]]]]]]]; [discriminate|].
    injection Ef as <- <- <-. destruct (k + n <=? h) eqn:R; [destruct Pend|].
    destruct (g_shape s G _ _ _ _ L) as [[ls [l0 [Hd _]]]|[z [kd [Ez I1]]]]; [discriminate|]. injection Ez as <-.
    pose proof (vstar_own h T s (Nx n w x) k e kd G I1) as V. unfold ev in V. cbn in V. rewrite V. cbn [lsat]. now rewrite R.
Qed.
Theorem unique_full (v : nat -> bool) : ok_cls T v s -> ok_ext v s -> forall z, 0 < z < nxt s -> v z = vs z.
Proof.
  intros Oc Oe z Hz. destruct (g_all s G z Hz) as [kd [[f k] I1]]. destruct (g_owner s G z kd f k I1) as [d L].
  pose proof (value_full h s I W T v Oc Oe f k (true, VX z) (ex_intro _ d L)) as V. unfold ev in V. cbn in V. rewrite V.
  pose proof (vstar_own h T s f k z kd G I1) as V2. unfold ev in V2. cbn in V2. now rewrite V2.
Qed.
End Exist.
(* The whole story for one more horizon: after Theory.translate at horizon S h both invariants hold again; for every trace T there is an
   assignment of the auxiliary atoms that violates no constraint and gives the pending placeholders their boundary values, it is unique on
   all allocated atoms, and under it every cached literal has the LTLf value of its formula.  Hence body formulas have a definite truth value
   in every answer set and mentioning one neither creates, destroys nor duplicates answer sets - for the FULL operator set. *)
Theorem definitional_extension_full fuel h s roots s' :
  Inv h [] s -> Gw s -> Wf s -> (forall p, In p (pending s) -> fst p <= S h) -> (forall p, In p roots -> fst p <= S h /\ wfb (snd p) = true) ->
  theory_translate fuel (S h) roots s = Some s' ->
  Inv (S h) [] s' /\ Gw s' /\ Wf s' /\
  forall T : trace,
    (ok_cls T (vstar (S h) T s') s' /\ ok_ext (vstar (S h) T s') s') /\
    forall v : nat -> bool, ok_cls T v s' -> ok_ext v s' ->
      (forall z, 0 < z < nxt s' -> v z = vstar (S h) T s' z) /\
      (forall f k l, cached s' f k l -> ev T v l = lsat (S h) T f k).
Proof.
  intros I G W0 Bp Br Run. assert (forall p, In p roots -> fst p <= S h) as Br1 by (intros p Hp; exact (proj1 (Br p Hp))).
  pose proof (theory_translate_inv fuel h s roots s' I Bp Br1 Run) as I'. pose proof (theory_translate_gw fuel h s roots s' I G Bp Br1 Run) as G'.
  pose proof (theory_translate_wf fuel (S h) s roots s' W0 (fun p Hp => proj2 (Br p Hp)) Run) as W'.
  split; [exact I'|]. split; [exact G'|]. split; [exact W'|]. intros T. split; [now apply exists_full|]. intros v Oc Oe. split; [now apply unique_full|now apply value_full].
Qed.
End BTF.
