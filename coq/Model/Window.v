From Coq Require Import List Bool Arith ZArith Lia.
Import ListNotations.
Require Import HT TEL TELext DecP CoreRun.
(* C02 window: integrity constraints with look-ahead. A constraint with look-ahead L in part p is grounded
   - as a temporary copy guarded by __final(u) at offsets i = 0..L-1 (t = step - i, u = step), and
   - as a permanent copy at offset L (t = step - L),
   with gringo's simplification: user atoms with a time beyond the current step are unknown, i.e. false.
   Claim: at every horizon h the accumulated instances mean exactly "the constraint at every admissible position k <= h",
   with future atoms beyond h read as false. *)
Section Window.
Variable A : Type.
Inductive sgn := Pos | Neg | NegNeg.
Inductive batom := BAt (a:A) (past:nat) | BFut (a:A) (n:nat) | BInit (a:A) | BKwI | BKwF.
Inductive spart := Initial | Always | Dynamic.
Record crule := { cp : spart; cb : list (sgn * batom) }.
Notation tf := (tf A).
Definition TTop : tf := TImp A (TBot A) (TBot A).
Definition TNot (f:tf) : tf := TImp A f (TBot A).
Definition sgn_tf (s:sgn) (f:tf) : tf := match s with Pos => f | Neg => TNot f | NegNeg => TNot (TNot f) end.
Definition batom_tf (b:batom) : tf :=
  match b with
  | BAt a 0 => TAt A a
  | BAt a (S n) => TPv A false (S n) (TAt A a)
  | BFut a 0 => TAt A a
  | BFut a (S n) => TNx A false (S n) (TAt A a)
  | BInit a => TAt0 A a
  | BKwI => TPv A true 1 (TBot A)
  | BKwF => TNx A true 1 (TBot A)
  end.
Fixpoint body_tf (l:list (sgn*batom)) : tf := match l with [] => TTop | (s,b)::r => TAnd A (sgn_tf s (batom_tf b)) (body_tf r) end.
Definition rule_tf (r:crule) : tf := TImp A (body_tf (cb r)) (TBot A).
Definition ahead (b:batom) : nat := match b with BFut _ n => n | _ => 0 end.
Fixpoint lookahead (l:list (sgn*batom)) : nat := match l with [] => 0 | (_,b)::r => Nat.max (ahead b) (lookahead r) end.
(* ---------- operational side ---------- *)
(* ground atoms, decided atoms and the trace of an interpretation are those of Model/CoreRun.v *)
Notation gatom := (CoreRun.gatom A).
Notation GU := (CoreRun.GU A).
Notation GI := (CoreRun.GI A).
Notation GF := (CoreRun.GF A).
Notation gf := (form gatom).
Definition GTop : gf := Imp _ (Bot _) (Bot _).
Definition GNot (f:gf) : gf := Imp _ f (Bot _).
Definition sgn_gf (s:sgn) (f:gf) : gf := match s with Pos => f | Neg => GNot f | NegNeg => GNot (GNot f) end.
(* instantiate at t, grounded at step s: user atoms beyond s are unknown -> Bot *)
Definition user (s:nat) (a:A) (t:Z) : gf := if (t <=? Z.of_nat s)%Z then Var _ (GU a t) else Bot _.
Definition inst (s:nat) (t:Z) (b:batom) : gf :=
  match b with
  | BAt a p => user s a (t - Z.of_nat p)
  | BFut a n => user s a (t + Z.of_nat n)
  | BInit a => user s a 0
  | BKwI => Var _ (GI t)
  | BKwF => Var _ (GF t)
  end.
Fixpoint body_gf (s:nat) (t:Z) (l:list (sgn*batom)) : gf := match l with [] => GTop | (sg,b)::r => And _ (sgn_gf sg (inst s t b)) (body_gf s t r) end.
Definition ginst (s:nat) (t:nat) (temp:bool) (r:crule) : gf :=
  Imp _ (And _ (if temp then Var _ (GF (Z.of_nat s)) else GTop) (body_gf s (Z.of_nat t) (cb r))) (Bot _).
Definition selected (p:spart) (t:nat) : bool := match p with Always => true | Dynamic => 0 <? t | Initial => t =? 0 end.   (* regenerated part_selected on step - i *)
(* all instances produced at step s for rule r: offsets 0..L-1 temporary, offset L permanent *)
Definition step_instances (s:nat) (r:crule) : list gf :=
  let L := lookahead (cb r) in
  map (fun i => ginst s (s - i) true r) (filter (fun i => (i <=? s) && selected (cp r) (s - i)) (seq 0 L))
  ++ (if (L <=? s) && selected (cp r) (s - L) then [ginst s (s - L) false r] else []).
Variable P : list crule.
Definition rules (h:nat) : list gf := flat_map (fun s => flat_map (step_instances s) P) (seq 0 (S h)).
(* ---------- meaning at horizon h ---------- *)
Variable h : nat.
Notation dec := (CoreRun.dec A h).
Notation tr := (CoreRun.tr A).
Definition admissible (p:spart) (k:nat) : bool := selected p k.
Section PerInstance.
Variables H T : interp gatom.
Hypothesis AgH : agrees _ dec H.
Hypothesis AgT : agrees _ dec T.
Lemma out_of_range I a (t:Z) : agrees _ dec I -> (t < 0 \/ Z.of_nat h < t)%Z -> I (GU a t) = false.
Proof.
  intros Ag Ht. apply Ag. cbn. destruct ((0 <=? t)%Z && (t <=? Z.of_nat h)%Z) eqn:E; [|reflexivity].
  apply andb_true_iff in E as [E1 E2]. apply Z.leb_le in E1, E2. lia.
Qed.
(* a literal atom instantiated at position k, grounded at step s <= h; either s = h, or nothing in the rule looks beyond s.
   Stated for any evaluation ev of ground formulas that reads atoms from I (instances: csat T with I = T, hsat H T with I = H). *)
Lemma inst_any I (ev : gf -> bool) s k b : (forall g, ev (Var _ g) = I g) -> ev (Bot _) = false -> agrees _ dec I ->
  k <= s -> s <= h -> (s = h \/ k + ahead b <= s) -> ev (inst s (Z.of_nat k) b) = lsat A h (tr I) (batom_tf b) k.
Proof.
  intros EV EB Ag Hks Hsh Hcase. destruct b as [a p|a n|a| |]; cbn [inst batom_tf ahead] in *.
  - unfold user. assert ((Z.of_nat k - Z.of_nat p <=? Z.of_nat s)%Z = true) as -> by (apply Z.leb_le; lia). rewrite EV.
    destruct p as [|p]; cbn [lsat].
    + unfold tr. f_equal. f_equal. lia.
    + destruct (S p <=? k) eqn:E.
      * apply Nat.leb_le in E. unfold tr. f_equal. f_equal. lia.
      * apply Nat.leb_gt in E. apply out_of_range; [assumption|lia].
  - unfold user. destruct n as [|n]; cbn [lsat].
    + assert ((Z.of_nat k + Z.of_nat 0 <=? Z.of_nat s)%Z = true) as -> by (apply Z.leb_le; lia). rewrite EV. unfold tr. f_equal. f_equal. lia.
    + destruct (k + S n <=? h) eqn:E.
      * apply Nat.leb_le in E. destruct (Z.of_nat k + Z.of_nat (S n) <=? Z.of_nat s)%Z eqn:E2.
        -- rewrite EV. unfold tr. f_equal. f_equal. lia.
        -- apply Z.leb_gt in E2. destruct Hcase as [->|Hc]; lia.
      * apply Nat.leb_gt in E. destruct (Z.of_nat k + Z.of_nat (S n) <=? Z.of_nat s)%Z eqn:E2; [|exact EB].
        rewrite EV. apply out_of_range; [assumption|lia].
  - unfold user. assert ((0 <=? Z.of_nat s)%Z = true) as -> by (apply Z.leb_le; lia). rewrite EV. reflexivity.
  - rewrite EV. cbn [lsat]. rewrite (Ag (GI (Z.of_nat k)) _ eq_refl). destruct k; cbn; reflexivity.
  - rewrite EV. cbn [lsat]. rewrite (Ag (GF (Z.of_nat k)) _ eq_refl). destruct (k+1 <=? h) eqn:E.
    + apply Nat.leb_le in E. apply Z.eqb_neq. lia.
    + apply Nat.leb_gt in E. apply Z.eqb_eq. lia.
Qed.
Lemma batom_here Hh Tt b k : tsat A h Hh Tt (batom_tf b) k = lsat A h Hh (batom_tf b) k.
Proof. destruct b as [a [|p]|a [|n]|a| |]; reflexivity. Qed.
Notation tsatH := (tsat A h (tr H) (tr T)).
Notation lsatT := (lsat A h (tr T)).
Lemma lit_c s k sg b : k <= s -> s <= h -> (s = h \/ k + ahead b <= s) -> csat _ T (sgn_gf sg (inst s (Z.of_nat k) b)) = lsatT (sgn_tf sg (batom_tf b)) k.
Proof.
  intros A1 A2 A3. pose proof (inst_any T (csat _ T) s k b (fun _ => eq_refl) eq_refl AgT A1 A2 A3) as E.
  destruct sg; cbn [sgn_gf sgn_tf GNot TNot csat lsat]; now rewrite E.
Qed.
Lemma lit_h s k sg b : k <= s -> s <= h -> (s = h \/ k + ahead b <= s) -> hsat _ H T (sgn_gf sg (inst s (Z.of_nat k) b)) = tsatH (sgn_tf sg (batom_tf b)) k.
Proof.
  intros A1 A2 A3. pose proof (inst_any T (csat _ T) s k b (fun _ => eq_refl) eq_refl AgT A1 A2 A3) as Ec.
  pose proof (inst_any H (hsat _ H T) s k b (fun _ => eq_refl) eq_refl AgH A1 A2 A3) as Eh.
  destruct sg; cbn [sgn_gf sgn_tf GNot TNot hsat csat tsat lsat]; rewrite ?batom_here, ?Eh, ?Ec; reflexivity.
Qed.
Lemma lookahead_bound l sg b : In (sg,b) l -> ahead b <= lookahead l.
Proof. induction l as [|[sg' b'] l IH]; cbn [lookahead]; [intros []|]. intros [E|Hin]; [inversion E; subst; lia|specialize (IH Hin); lia]. Qed.
Lemma body_c s k l : k <= s -> s <= h -> (s = h \/ k + lookahead l <= s) -> csat _ T (body_gf s (Z.of_nat k) l) = lsatT (body_tf l) k.
Proof.
  intros A1 A2 A3. induction l as [|[sg b] l IH]; cbn [body_gf body_tf csat lsat lookahead] in *; [reflexivity|].
  rewrite lit_c, IH; auto; destruct A3 as [->|A3]; auto; right; lia.
Qed.
Lemma body_h s k l : k <= s -> s <= h -> (s = h \/ k + lookahead l <= s) -> hsat _ H T (body_gf s (Z.of_nat k) l) = tsatH (body_tf l) k.
Proof.
  intros A1 A2 A3. induction l as [|[sg b] l IH]; cbn [body_gf body_tf hsat tsat lookahead] in *; [reflexivity|].
  rewrite lit_h, IH; auto; destruct A3 as [->|A3]; auto; right; lia.
Qed.
(* the three kinds of instances *)
Theorem temp_live r k : k <= h -> hsat _ H T (ginst h k true r) = tsatH (rule_tf r) k.
Proof.
  intros Hk. unfold ginst, rule_tf. cbn [hsat csat tsat lsat].
  rewrite (AgH (GF (Z.of_nat h)) _ eq_refl), (AgT (GF (Z.of_nat h)) _ eq_refl), Z.eqb_refl. cbn [andb].
  now rewrite body_h, body_c by auto.
Qed.
Theorem temp_dead r s k : s < h -> hsat _ H T (ginst s k true r) = true.
Proof.
  intros Hs. unfold ginst. cbn [hsat csat].
  rewrite (AgH (GF (Z.of_nat s)) _ eq_refl), (AgT (GF (Z.of_nat s)) _ eq_refl).
  assert ((Z.of_nat s =? Z.of_nat h)%Z = false) as -> by (apply Z.eqb_neq; lia). reflexivity.
Qed.
Theorem perm_meaning r k : k + lookahead (cb r) <= h -> hsat _ H T (ginst (k + lookahead (cb r)) k false r) = tsatH (rule_tf r) k.
Proof.
  intros Hk. unfold ginst, rule_tf. cbn [hsat csat tsat lsat GTop andb implb].
  now rewrite body_h, body_c by (auto; lia).
Qed.
End PerInstance.
(* ---------- the window theorem ---------- *)
Lemma in_rules f : In f (rules h) <-> exists s r, s <= h /\ In r P /\
  ((exists i, i < lookahead (cb r) /\ i <= s /\ selected (cp r) (s - i) = true /\ f = ginst s (s - i) true r)
   \/ (lookahead (cb r) <= s /\ selected (cp r) (s - lookahead (cb r)) = true /\ f = ginst s (s - lookahead (cb r)) false r)).
Proof.
  unfold rules. rewrite in_flat_map. split.
  - intros [s [Hs Hf]]. apply in_seq in Hs. apply in_flat_map in Hf as [r [Hr Hf]]. exists s, r. split; [lia|]. split; [exact Hr|].
    unfold step_instances in Hf. apply in_app_or in Hf as [Hf|Hf].
    + left. apply in_map_iff in Hf as [i [<- Hi]]. apply filter_In in Hi as [Hi C]. apply in_seq in Hi. apply andb_true_iff in C as [C1 C2].
      apply Nat.leb_le in C1. exists i. repeat split; auto; lia.
    + right. destruct ((lookahead (cb r) <=? s) && selected (cp r) (s - lookahead (cb r))) eqn:C; [|destruct Hf].
      apply andb_true_iff in C as [C1 C2]. apply Nat.leb_le in C1. destruct Hf as [<-|[]]. auto.
  - intros [s [r [Hs [Hr Hf]]]]. exists s. split; [apply in_seq; lia|]. apply in_flat_map. exists r. split; [exact Hr|].
    unfold step_instances. apply in_or_app. destruct Hf as [[i [Hi [His [Sel ->]]]]|[HL [Sel ->]]].
    + left. apply in_map_iff. exists i. split; [reflexivity|]. apply filter_In. split; [apply in_seq; lia|].
      apply andb_true_iff. split; [now apply Nat.leb_le|exact Sel].
    + right. assert ((lookahead (cb r) <=? s) && selected (cp r) (s - lookahead (cb r)) = true) as -> by (apply andb_true_iff; split; [now apply Nat.leb_le|exact Sel]).
      now left.
Qed.
Definition tmodel (Hh Tt:trace A) := forall r k, In r P -> k <= h -> admissible (cp r) k = true -> tsat A h Hh Tt (rule_tf r) k = true.
Theorem C02_window H T : agrees _ dec H -> agrees _ dec T -> (modelP _ H T (of_list _ (rules h)) <-> tmodel (tr H) (tr T)).
Proof.
  intros AgH AgT. split.
  - intros M r k Hr Hk Adm. set (L := lookahead (cb r)). destruct (Nat.le_gt_cases (k + L) h) as [Le|Gt].
    + (* the permanent copy has been grounded at step k + L *)
      rewrite <- (perm_meaning H T AgH AgT r k Le). apply M. apply in_rules. exists (k + L), r. split; [exact Le|]. split; [exact Hr|]. right.
      fold L. replace (k + L - L) with k by lia. split; [lia|]. split; [exact Adm|reflexivity].
    + (* only the temporary copy of the current step is alive; atoms beyond h are false *)
      rewrite <- (temp_live H T AgH AgT r k Hk). apply M. apply in_rules. exists h, r. split; [lia|]. split; [exact Hr|]. left.
      exists (h - k). fold L. replace (h - (h - k)) with k by lia. repeat split; auto; lia.
  - intros M f Hf. apply in_rules in Hf as [s [r [Hs [Hr [[i [Hi [His [Sel ->]]]]|[HL [Sel ->]]]]]]].
    + destruct (Nat.eq_dec s h) as [->|Ne].
      * rewrite (temp_live H T AgH AgT r (h - i)) by lia. apply M; auto; lia.
      * apply (temp_dead H T AgH AgT). lia.
    + replace s with ((s - lookahead (cb r)) + lookahead (cb r)) at 1 by lia.
      rewrite (perm_meaning H T AgH AgT r (s - lookahead (cb r))) by lia. apply M; auto; lia.
Qed.
End Window.

