(* Model of Interval / IntervalSet (transformers/head.py): half-open integer intervals kept sorted and separated; add merges the new
   interval with every interval it touches.  The comparison and union of intervals are REGENERATED (Gen/FromHeadRanges.v). *)
From Coq Require Import List Bool ZArith Lia.
Require Import GenPrelude FromHeadRanges.
Import ListNotations.
Local Open Scope Z_scope.
Definition iv := (Z * Z)%type.
Definition before (a b : iv) : bool := match interval_before_gen (snd a) (fst b) with Some x => x | None => false end.
Definition iunion (a b : iv) : iv :=
  (match interval_union_left_gen (fst a) (fst b) with Some x => x | None => fst a end,
   match interval_union_right_gen (snd a) (snd b) with Some x => x | None => snd a end).
Definition iempty (a : iv) : bool := match interval_empty_gen (fst a) (snd a) with Some x => x | None => true end.
(* the second loop of IntervalSet.add: absorb every following interval that the (growing) new interval is not strictly before *)
Fixpoint merge (y : iv) (l : list iv) : list iv :=
  match l with
  | [] => [y]
  | x :: r => if before y x then y :: x :: r else merge (iunion y x) r
  end.
(* the first loop: skip the intervals that lie strictly before the new one *)
Fixpoint add_from (y : iv) (l : list iv) : list iv :=
  match l with
  | [] => [y]
  | x :: r => if before x y then x :: add_from y r else merge y (x :: r)
  end.
Definition add (y : iv) (l : list iv) : list iv := if iempty y then l else add_from y l.
Definition of_list (xs : list iv) : list iv := fold_left (fun l y => add y l) xs [].
