(* Executable model of telingo.imain (telingo/__init__.py): the incremental solving loop as a function from
   options, the program-part list, an oracle for solve results and an oracle for the future atoms in the atom
   base, to the trace of calls on the Control object.  All decisions are taken by the definitions REGENERATED
   from the source (Gen/FromSource.v). *)
Require Import GenPrelude FromSource.
Local Open Scope string_scope.
Definition ppart := (root * string * list nat)%type.
Inductive event :=
| EvRelease (t : Z) | EvCleanup | EvGround (parts : list (string * Z * Z)) | EvTranslate (step : nat)
| EvAssign (t : Z) (v : bool) | EvSolve (step : nat) (assumed : list nat).
Inductive outcome := Steps (l : list event) | Raised (l : list event).
Section Run.
Variables (imax : option nat) (imin : nat) (istop : stopc).
Variable parts : list ppart.
Variable res : nat -> result.            (* result of the solve call at step n *)
Variable future : nat -> list nat.       (* time stamps of the future atoms in the atom base at step n *)
(* selection of the parts to ground at [step]; None = the Python expression raises *)
Fixpoint sel_rng (r : root) (name : string) (step : nat) (rng : list nat) : option (list (string * Z * Z)) :=
  match rng with
  | [] => Some []
  | i :: rest =>
    match part_selected_gen r step i, part_params_gen step i, sel_rng r name step rest with
    | Some true, (Some t, Some u), Some l => Some ((name, t, u) :: l)
    | Some false, _, Some l => Some l
    | _, _, _ => None
    end
  end.
Fixpoint sel_parts (ps : list ppart) (step : nat) : option (list (string * Z * Z)) :=
  match ps with
  | [] => Some []
  | (r, name, rng) :: rest =>
    match sel_rng r name step rng, sel_parts rest step with
    | Some a, Some b => Some (a ++ b)%list | _, _ => None end
  end.
Fixpoint sel_assume (step : nat) (times : list nat) : option (list nat) :=
  match times with
  | [] => Some []
  | t :: rest =>
    match assume_false_gen t step, sel_assume step rest with
    | Some true, Some l => Some (t :: l) | Some false, Some l => Some l | _, _ => None end
  end.
(* one loop body: the calls whose guard holds, in source order; then their events and the next value of [step] *)
Definition live_calls (cs : list (option bool * call)) : option (list call) :=
  fold_right (fun gc acc => match fst gc, acc with
                            | Some true, Some l => Some (snd gc :: l) | Some false, Some l => Some l | _, _ => None end)
             (Some []) cs.
Fixpoint call_events (step : nat) (cs : list call) : option (list event * option nat) :=
  match cs with
  | [] => Some ([], None)
  | c :: rest =>
    match call_events step rest with
    | Some (evs, nx) =>
      match c with
      | CRelease (Some t) => Some (EvRelease t :: evs, nx)
      | CCleanup => Some (EvCleanup :: evs, nx)
      | CGround => match sel_parts parts step with Some p => Some (EvGround p :: evs, nx) | None => None end
      | CTranslate => Some (EvTranslate step :: evs, nx)
      | CAssign (Some t) v => Some (EvAssign t v :: evs, nx)
      | CSolve (Some n) => match sel_assume step (future step) with
                           | Some a => Some (EvSolve step a :: evs, Some (Z.to_nat n)) | None => None end
      | _ => None
      end
    | None => None
    end
  end.
Definition body_events (step : nat) (cs : list (option bool * call)) : option (list event * option nat) :=
  match live_calls cs with Some l => call_events step l | None => None end.
Fixpoint run (fuel step : nat) (prev : option result) (acc : list event) : outcome :=
  match fuel with
  | 0 => Steps acc
  | S f => match loop_cond_gen imax imin istop step prev with
           | None => Raised acc
           | Some false => Steps acc
           | Some true =>
             match body_events step (loop_body_gen step) with
             | Some (evs, Some nx) => run f nx (Some (res step)) (acc ++ evs)%list
             | _ => Raised acc
             end
           end
  end.
Definition imain_run (fuel : nat) : outcome := run fuel 0 None [].
End Run.
Definition solves (l : list event) : list nat :=
  flat_map (fun e => match e with EvSolve s _ => [s] | _ => [] end) l.
