From Coq Require Import List Bool Arith Lia.
Import ListNotations.
(* Model of theory/head.py: ShiftFormula (+ the semantic facts behind C04_sound).
   Head formulas: atoms, constants, negation, n-fold next (weak/strong), until/release with and without lhs, and/or. *)
Section Head.
Variable A : Type.
Variable h : nat.
Definition trace := nat -> A -> bool.
Inductive hf := HAt (a:A) | HConst (b:bool) | HNeg (x:hf) | HNx (n:nat) (weak:bool) (x:hf)
              | HUn (until:bool) (lhs rhs:hf) | HUn1 (until:bool) (rhs:hf) | HAnd (x y:hf) | HOr (x y:hf).
Inductive sf := SAt (a:A) | SAnd (x y:sf) | SOr (x y:sf)
              | SBack (d:nat) (x:hf)                 (* TelShift(-d, x): ~~ (x at d steps back)                  *)
              | SFwd (n:nat) (weak:bool) (x:hf).     (* TelShift(0, TelNext(n, x, weak)): ~~ (n-fold next of x)  *)
Fixpoint fut (until:bool) (sx sy : nat -> bool) (d k:nat) : bool :=
  match d with
  | 0 => sy k
  | S d' => if until then sy k || (sx k && fut until sx sy d' (S k)) else sy k && (sx k || fut until sx sy d' (S k))
  end.
Fixpoint csat (T:trace) (p:hf) : nat -> bool :=
  match p with
  | HAt a => fun k => T k a
  | HConst b => fun _ => b
  | HNeg x => fun k => negb (csat T x k)
  | HNx n w x => fun k => if k+n <=? h then csat T x (k+n) else w
  | HUn u l r => fun k => fut u (csat T l) (csat T r) (h-k) k
  | HUn1 u r => fun k => fut u (fun _ => u) (csat T r) (h-k) k           (* eventually = true U r ; always = false R r *)
  | HAnd x y => fun k => csat T x k && csat T y k
  | HOr x y => fun k => csat T x k || csat T y k
  end.
Fixpoint hsat (H T:trace) (p:hf) : nat -> bool :=
  match p with
  | HAt a => fun k => H k a
  | HConst b => fun _ => b
  | HNeg x => fun k => negb (csat T x k)
  | HNx n w x => fun k => if k+n <=? h then hsat H T x (k+n) else w
  | HUn u l r => fun k => fut u (hsat H T l) (hsat H T r) (h-k) k
  | HUn1 u r => fun k => fut u (fun _ => u) (hsat H T r) (h-k) k
  | HAnd x y => fun k => hsat H T x k && hsat H T y k
  | HOr x y => fun k => hsat H T x k || hsat H T y k
  end.
Fixpoint ssat (H T:trace) (g:sf) (k:nat) : bool :=
  match g with
  | SAt a => H k a
  | SAnd x y => ssat H T x k && ssat H T y k
  | SOr x y => ssat H T x k || ssat H T y k
  | SBack d x => if d <=? k then csat T x (k-d) else false
  | SFwd n w x => if k+n <=? h then csat T x (k+n) else w
  end.
Definition outer (u:bool) := if u then SOr else SAnd.
Definition inner (u:bool) := if u then SAnd else SOr.
Fixpoint shift (p:hf) : nat -> sf :=
  match p with
  | HAt a => fun d => match d with 0 => SAt a | _ => SBack d p end
  | HConst _ => fun d => SBack d p
  | HNeg _ => fun d => SBack d p
  | HNx n w x => fun d => if n <=? d then shift x (d-n) else SFwd (n-d) w x
  | HUn u l r => fix unroll (e:nat) : sf :=
      outer u (shift r e) (inner u (shift l e) (match e with 0 => SFwd 1 (negb u) p | S e' => unroll e' end))
  | HUn1 u r => fix unroll (e:nat) : sf :=
      outer u (shift r e) (match e with 0 => SFwd 1 (negb u) p | S e' => unroll e' end)
  | HAnd x y => fun d => SAnd (shift x d) (shift y d)
  | HOr x y => fun d => SOr (shift x d) (shift y d)
  end.
Definition tle (H T:trace) := forall k a, H k a = true -> T k a = true.
Lemma fut_mono u sx sy sx' sy' d : (forall k, sx k = true -> sx' k = true) -> (forall k, sy k = true -> sy' k = true) ->
  forall k, fut u sx sy d k = true -> fut u sx' sy' d k = true.
Proof.
  intros Mx My. induction d as [|d IH]; intros k; cbn [fut]; [apply My|]. destruct u.
  - rewrite !orb_true_iff, !andb_true_iff. intros [Hy|[Hx Hf]]; [left; auto|right; split; auto].
  - rewrite !andb_true_iff, !orb_true_iff. intros [Hy [Hx|Hf]]; split; auto.
Qed.
Lemma persist H T : tle H T -> forall p k, hsat H T p k = true -> csat T p k = true.
Proof.
  intros L p. induction p as [a|b|x IH|n w x IH|u l IHl r IHr|u r IHr|x IHx y IHy|x IHx y IHy]; intros k; cbn [hsat csat]; auto.
  - destruct (k+n <=? h); auto.
  - apply fut_mono; auto.
  - apply fut_mono; auto.
  - rewrite !andb_true_iff. intros [? ?]; auto.
  - rewrite !orb_true_iff. intros [?|?]; auto.
Qed.
(* classical agreement at the origin: shifting by 0 only inserts double negations *)
Lemma fut_step u sx sy d k : fut u sx sy (S d) k = (if u then sy k || (sx k && fut u sx sy d (S k)) else sy k && (sx k || fut u sx sy d (S k))).
Proof. reflexivity. Qed.
Theorem shift0_classical T p : forall k, k <= h -> ssat T T (shift p 0) k = csat T p k.
Proof.
  induction p as [a|b|x IH|n w x IH|u l IHl r IHr|u r IHr|x IHx y IHy|x IHx y IHy]; intros k Hk; cbn [shift ssat csat Nat.leb Nat.sub]; rewrite ?Nat.sub_0_r; auto.
  - destruct n as [|n]; cbn [Nat.leb Nat.sub ssat]; rewrite ?Nat.add_0_r, ?Nat.sub_0_r.
    + assert (k <=? h = true) as -> by now apply Nat.leb_le. now apply IH.
    + reflexivity.
  - unfold outer, inner. destruct (h-k) as [|d] eqn:E; cbn [fut].
    + assert (k+1 <=? h = false) as R by (apply Nat.leb_gt; lia).
      destruct u; cbn [ssat negb]; rewrite R, IHr, ?IHl by assumption; cbn; [now rewrite andb_false_r, orb_false_r|now rewrite orb_true_r, andb_true_r].
    + assert (k+1 <=? h = true) as R by (apply Nat.leb_le; lia).
      destruct u; cbn [ssat csat]; rewrite R, IHr, IHl by assumption; replace (h-(k+1)) with d by lia; replace (k+1) with (S k) by lia; reflexivity.
  - unfold outer. destruct (h-k) as [|d] eqn:E; cbn [fut].
    + assert (k+1 <=? h = false) as R by (apply Nat.leb_gt; lia).
      destruct u; cbn [ssat negb]; rewrite R, IHr by assumption; cbn; [now rewrite orb_false_r|now rewrite andb_true_r].
    + assert (k+1 <=? h = true) as R by (apply Nat.leb_le; lia).
      destruct u; cbn [ssat csat]; rewrite R, IHr by assumption; replace (h-(k+1)) with d by lia; replace (k+1) with (S k) by lia; cbn; reflexivity.
  - now rewrite IHx, IHy.
  - now rewrite IHx, IHy.
Qed.
(* one-step laws of the semantics and of shift *)
Lemma hsat_un_step H T u l r s : s < h ->
  hsat H T (HUn u l r) s = if u then hsat H T r s || (hsat H T l s && hsat H T (HUn u l r) (S s)) else hsat H T r s && (hsat H T l s || hsat H T (HUn u l r) (S s)).
Proof. intros Hs. cbn [hsat]. replace (h-s) with (S (h - S s)) by lia. reflexivity. Qed.
Lemma hsat_un_last H T u l r : hsat H T (HUn u l r) h = hsat H T r h.
Proof. cbn [hsat]. now rewrite Nat.sub_diag. Qed.
Lemma hsat_un1_step H T u r s : s < h ->
  hsat H T (HUn1 u r) s = if u then hsat H T r s || hsat H T (HUn1 u r) (S s) else hsat H T r s && hsat H T (HUn1 u r) (S s).
Proof. intros Hs. cbn [hsat]. replace (h-s) with (S (h - S s)) by lia. cbn [fut]. destruct u; cbn; reflexivity. Qed.
Lemma hsat_un1_last H T u r : hsat H T (HUn1 u r) h = hsat H T r h.
Proof. cbn [hsat]. now rewrite Nat.sub_diag. Qed.
Lemma shift_un_unfold u l r e : shift (HUn u l r) e =
  outer u (shift r e) (inner u (shift l e) (match e with 0 => SFwd 1 (negb u) (HUn u l r) | S e' => shift (HUn u l r) e' end)).
Proof. destruct e; reflexivity. Qed.
Lemma shift_un1_unfold u r e : shift (HUn1 u r) e =
  outer u (shift r e) (match e with 0 => SFwd 1 (negb u) (HUn1 u r) | S e' => shift (HUn1 u r) e' end).
Proof. destruct e; reflexivity. Qed.
Lemma sback H T d p s : csat T p s = true -> ssat H T (SBack d p) (s+d) = true.
Proof. intros C. cbn [ssat]. assert (d <=? s+d = true) as -> by (apply Nat.leb_le; lia). now replace (s+d-d) with s by lia. Qed.
(* every clause member produced at a later step is an HT consequence of the head formula at its origin *)
Theorem shift_consequence H T : tle H T -> forall p s d, s + d <= h -> hsat H T p s = true -> ssat H T (shift p d) (s+d) = true.
Proof.
  intros L p. induction p as [a|b|x IH|n w x IH|u l IHl r IHr|u r IHr|x IHx y IHy|x IHx y IHy]; intros s d Hd Hs.
  - destruct d as [|d]; cbn [shift].
    + cbn [ssat]. now rewrite Nat.add_0_r.
    + apply sback. exact (persist H T L _ _ Hs).
  - cbn [shift]. apply sback. exact (persist H T L _ _ Hs).
  - cbn [shift]. apply sback. exact (persist H T L _ _ Hs).
  - cbn [shift]. cbn [hsat] in Hs. destruct (n <=? d) eqn:E.
    + apply Nat.leb_le in E. assert (s+n <=? h = true) as R by (apply Nat.leb_le; lia). rewrite R in Hs.
      replace (s+d) with ((s+n)+(d-n)) by lia. apply IH; [lia|exact Hs].
    + apply Nat.leb_gt in E. cbn [ssat]. replace (s+d+(n-d)) with (s+n) by lia.
      destruct (s+n <=? h); [exact (persist H T L _ _ Hs)|exact Hs].
  - revert s Hd Hs. induction d as [|e IHe]; intros s Hd Hs; rewrite shift_un_unfold; unfold outer, inner.
    + rewrite Nat.add_0_r in *. destruct (Nat.eq_dec s h) as [->|Ne].
      * rewrite hsat_un_last in Hs. pose proof (IHr h 0 ltac:(lia) Hs) as Rr. rewrite Nat.add_0_r in Rr.
        destruct u; cbn [ssat]; rewrite Rr; cbn [andb orb]; [reflexivity|].
        assert (h+1 <=? h = false) as -> by (apply Nat.leb_gt; lia). cbn [andb orb]. now rewrite orb_true_r.
      * rewrite hsat_un_step in Hs by lia. assert (s+1 <=? h = true) as R1 by (apply Nat.leb_le; lia).
        destruct u; cbn [ssat]; rewrite R1.
        -- apply orb_true_iff in Hs as [Hr|Hl]; [pose proof (IHr s 0 ltac:(lia) Hr) as Rr; rewrite Nat.add_0_r in Rr; now rewrite Rr|].
           apply andb_true_iff in Hl as [Hl Hn]. pose proof (IHl s 0 ltac:(lia) Hl) as Rl. rewrite Nat.add_0_r in Rl. rewrite Rl.
           replace (s+1) with (S s) by lia. rewrite (persist H T L _ _ Hn). cbn [andb orb]. now rewrite orb_true_r.
        -- apply andb_true_iff in Hs as [Hr Hl]. pose proof (IHr s 0 ltac:(lia) Hr) as Rr. rewrite Nat.add_0_r in Rr. rewrite Rr. cbn [andb orb].
           apply orb_true_iff in Hl as [Hl|Hn]; [pose proof (IHl s 0 ltac:(lia) Hl) as Rl; rewrite Nat.add_0_r in Rl; now rewrite Rl|].
           replace (s+1) with (S s) by lia. rewrite (persist H T L _ _ Hn). now rewrite orb_true_r.
    + rewrite hsat_un_step in Hs by lia. replace (s + S e) with (S s + e) in * by lia.
      assert (forall q (IHq : forall s d, s + d <= h -> hsat H T q s = true -> ssat H T (shift q d) (s + d) = true),
                 hsat H T q s = true -> ssat H T (shift q (S e)) (S s + e) = true) as Sh.
      { intros q IHq Hq. replace (S s + e) with (s + S e) by lia. apply IHq; [lia|exact Hq]. }
      destruct u; cbn [ssat].
      * apply orb_true_iff in Hs as [Hr|Hl]; [now rewrite (Sh r IHr Hr)|].
        apply andb_true_iff in Hl as [Hl Hn]. rewrite (Sh l IHl Hl), (IHe (S s) ltac:(lia) Hn). cbn [andb orb]. now rewrite orb_true_r.
      * apply andb_true_iff in Hs as [Hr Hl]. rewrite (Sh r IHr Hr). cbn [andb orb].
        apply orb_true_iff in Hl as [Hl|Hn]; [now rewrite (Sh l IHl Hl)|]. rewrite (IHe (S s) ltac:(lia) Hn). now rewrite orb_true_r.
  - revert s Hd Hs. induction d as [|e IHe]; intros s Hd Hs; rewrite shift_un1_unfold; unfold outer.
    + rewrite Nat.add_0_r in *. destruct (Nat.eq_dec s h) as [->|Ne].
      * rewrite hsat_un1_last in Hs. pose proof (IHr h 0 ltac:(lia) Hs) as Rr. rewrite Nat.add_0_r in Rr.
        destruct u; cbn [ssat]; rewrite Rr; cbn [andb orb]; [reflexivity|].
        assert (h+1 <=? h = false) as -> by (apply Nat.leb_gt; lia). reflexivity.
      * rewrite hsat_un1_step in Hs by lia. assert (s+1 <=? h = true) as R1 by (apply Nat.leb_le; lia).
        destruct u; cbn [ssat]; rewrite R1.
        -- apply orb_true_iff in Hs as [Hr|Hn]; [pose proof (IHr s 0 ltac:(lia) Hr) as Rr; rewrite Nat.add_0_r in Rr; now rewrite Rr|].
           replace (s+1) with (S s) by lia. rewrite (persist H T L _ _ Hn). now rewrite orb_true_r.
        -- apply andb_true_iff in Hs as [Hr Hn]. pose proof (IHr s 0 ltac:(lia) Hr) as Rr. rewrite Nat.add_0_r in Rr. rewrite Rr. cbn [andb orb].
           replace (s+1) with (S s) by lia. exact (persist H T L _ _ Hn).
    + rewrite hsat_un1_step in Hs by lia. replace (s + S e) with (S s + e) in * by lia.
      assert (hsat H T r s = true -> ssat H T (shift r (S e)) (S s + e) = true) as Sh.
      { intros Hq. replace (S s + e) with (s + S e) by lia. apply IHr; [lia|exact Hq]. }
      destruct u; cbn [ssat].
      * apply orb_true_iff in Hs as [Hr|Hn]; [now rewrite (Sh Hr)|]. rewrite (IHe (S s) ltac:(lia) Hn). now rewrite orb_true_r.
      * apply andb_true_iff in Hs as [Hr Hn]. now rewrite (Sh Hr), (IHe (S s) ltac:(lia) Hn).
  - cbn [shift ssat]. cbn [hsat] in Hs. apply andb_true_iff in Hs as [Hx Hy]. now rewrite (IHx s d Hd Hx), (IHy s d Hd Hy).
  - cbn [shift ssat]. cbn [hsat] in Hs. apply orb_true_iff in Hs as [Hx|Hy]; [now rewrite (IHx s d Hd Hx)|rewrite (IHy s d Hd Hy); now rewrite orb_true_r].
Qed.
End Head.

