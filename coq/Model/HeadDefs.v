(* Definitions of the head formula model that are extracted (driver command `hds`) - kept apart from the proofs about them (Model/HeadForm.v,
   Proofs/HeadRulesProofs.v) so that the executable model still builds when a regenerated table breaks a proof:
   - denote: the head formula object of a table entry of create_formula (theory/head.py);
   - unfold: UnfoldFormula (conjunctions concatenate the clause lists, disjunctions take one clause per combination);
   - h2b: HeadFormulaToBodyFormula;  body_formula / rule_of: ClauseToRule;  clauses_at / rules_at: HeadFormula.translate at distance d from the
     state the formula was introduced at;  hbuild: formula objects from raw operator applications through the REGENERATED table. *)
From Coq Require Import List Bool Arith ZArith Lia String.
Require Import GenPrelude TheoryPrelude FromTheory FormPrelude FromBodyForm FromHeadForm TheorySem BodyTheoryFull TheoryBuild HeadShift.
Import ListNotations.
Local Open Scope string_scope.
Local Open Scope nat_scope.
Section Denote.
Variable A : Type.
Variable ini fin : A.                              (* the marker atoms __initial / __final *)
Notation hf := (hf A).
Fixpoint denote (e : hexp) (l r : hf) (n : nat) : hf :=
  match e with
  | HxRhs => r
  | HxLhs => l
  | HxClause c a b => if c then HAnd A (denote a l r n) (denote b l r n) else HOr A (denote a l r n) (denote b l r n)
  | HxNeg a => HNeg A (denote a l r n)
  | HxNext c a w => HNx A (cntv c n) w (denote a l r n)
  | HxUntil lhs rhs u => match lhs with Some x => HUn A u (denote x l r n) (denote rhs l r n) | None => HUn1 A u (denote rhs l r n) end
  | HxAtomKw name => if String.eqb name "__initial" then HAt A ini else if String.eqb name "__final" then HAt A fin else HConst A false
  | HxConst b => HConst A b
  | HxIfZero a b => if n =? 0 then denote a l r n else denote b l r n
  end.
End Denote.
Section Unfold.
Variable A : Type.
Fixpoint unfold (g : sf A) : list (list (sf A)) :=
  match g with
  | SAnd _ x y => if unfold_conjunction_concatenates_gen then (unfold x ++ unfold y)%list else []
  | SOr _ x y => if unfold_disjunction_is_product_gen then flat_map (fun c1 => map (fun c2 => (c1 ++ c2)%list) (unfold y)) (unfold x) else []
  | leaf => [[leaf]]
  end.
End Unfold.
Section HeadRulesDefs.
Variable A : Type.
Notation hf := (hf A).
Notation sf := (sf A).
Notation bf := (bf A).
(* HeadFormulaToBodyFormula: None when the regenerated decisions do not fit the formula classes of the body theory model *)
Definition until_of (op : telop) : option bool := match op with OpUntil => Some true | OpRelease => Some false | _ => None end.
Definition bool_of (op : boolop) : option boolop := match op with OpAnd => Some OpAnd | OpOr => Some OpOr | _ => None end.
Fixpoint h2b (p : hf) : option bf :=
  match p with
  | HAt _ a => Some (At A a)
  | HConst _ b => Some (Cst A b)
  | HNeg _ x => option_map (Neg A) (h2b x)
  | HNx _ n w x => option_map (Nx A n w) (h2b x)
  | HUn _ u l r =>
      match until_of (h2b_until_op_gen u), h2b l, h2b r with
      | Some u', Some bl, Some br => if Bool.eqb (h2b_until_future_weak_gen u) (negb u') then Some (TN2 A u' bl br) else None
      | _, _, _ => None
      end
  | HUn1 _ u r =>
      match until_of (h2b_until_op_gen u), h2b r with
      | Some u', Some br => if Bool.eqb (h2b_until_future_weak_gen u) (negb u') then Some (TN1 A u' br) else None
      | _, _ => None
      end
  | HAnd _ x y => match bool_of (h2b_clause_op_gen true), h2b x, h2b y with Some op, Some bx, Some by_ => Some (Bin A op bx by_) | _, _, _ => None end
  | HOr _ x y => match bool_of (h2b_clause_op_gen false), h2b x, h2b y with Some op, Some bx, Some by_ => Some (Bin A op bx by_) | _, _, _ => None end
  end.
(* ClauseToRule.visit_TelShift: the body formula ~ (d < x') resp. ~ (n > x') (the literal of the negation enters the rule body) *)
Definition body_formula (g : sf) : option bf :=
  match g with
  | SBack _ 0 x => option_map (Neg A) (h2b x)
  | SBack _ (S d) x => option_map (fun b => Neg A (Pv A (S d) (negb shifted_part_is_strong_gen) b)) (h2b x)
  | SFwd _ n w x => option_map (fun b => Neg A (Nx A n w b)) (h2b x)
  | _ => None
  end.
Record hrule := { hd : list A; bd : list bf }.
(* one clause -> one rule; atoms that are not in the atom base of the step are left out of the head (ctx.symbols[sym] is None) *)
Fixpoint rule_of (inbase : A -> bool) (c : list sf) : option hrule :=
  match c with
  | [] => Some {| hd := []; bd := [] |}
  | SAt _ a :: rest => option_map (fun r => {| hd := if inbase a then a :: hd r else hd r; bd := bd r |}) (rule_of inbase rest)
  | (SAnd _ _ _ | SOr _ _ _) :: _ => None
  | g :: rest => match body_formula g, rule_of inbase rest with Some b, Some r => Some {| hd := hd r; bd := b :: bd r |} | _, _ => None end
  end.
Fixpoint all_some {X} (l : list (option X)) : option (list X) :=
  match l with [] => Some [] | None :: _ => None | Some x :: r => option_map (cons x) (all_some r) end.
(* HeadFormula.translate at distance d from the state the formula was introduced at *)
Definition clauses_at (F : hf) (d : nat) : list (list sf) := unfold A (shift A F d).
Definition rules_at (inbase : A -> bool) (F : hf) (d : nat) : option (list hrule) := all_some (map (rule_of inbase) (clauses_at F d)).
End HeadRulesDefs.
(* ---------------- building head formula objects from raw operator applications through the regenerated table ---------------- *)
Section HBuild.
Variable ini fin : nat.
Notation hfn := (HeadShift.hf nat).
Fixpoint hbuild (r : raw) : option hfn :=
  match r with
  | RAtom a => Some (HAt nat a)
  | RKw name => option_map (fun e => denote nat ini fin e (HConst nat false) (HConst nat false) 0) (head_keyword_gen name)
  | ROp1 op x => match hbuild x, head_create_gen op 1 with Some bx, Some (_, e) => Some (denote nat ini fin e (HConst nat false) bx 0) | _, _ => None end
  | ROp2 op x y => match hbuild x, hbuild y, head_create_gen op 2 with Some bx, Some by_, Some (_, e) => Some (denote nat ini fin e bx by_ 0) | _, _, _ => None end
  | ROpN op n y => match hbuild y, head_create_gen op 2 with Some by_, Some (_, e) => Some (denote nat ini fin e (HConst nat false) by_ n) | _, _ => None end
  | RDel _ _ _ => None                                  (* no dynamic formulas in rule heads *)
  end.
(* several elements of one head theory atom: their disjunction, folded from the left *)
Definition helems (l : list hfn) : option hfn := match l with [] => None | x :: r => Some (fold_left (HOr nat) r x) end.
Definition member (l : list nat) (a : nat) : bool := existsb (Nat.eqb a) l.
Definition head_step (F : hfn) (d : nat) (base : list nat) : list (list (HeadShift.sf nat)) * option (list (hrule nat)) :=
  (clauses_at nat F d, rules_at nat (member base) F d).
End HBuild.
