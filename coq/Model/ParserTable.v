(* The operator-precedence parser of Model/Parser.v instantiated with an operator table (operators are strings). *)
Require Import GenPrelude FromTables Parser.
Local Open Scope string_scope.
Definition assoc_eqb (a b : assoc) : bool := match a, b with ALeft, ALeft | ARight, ARight | ANone, ANone => true | _, _ => false end.
Definition entry_eqb (a b : tentry) : bool :=
  let '(o, u, p, s) := a in let '(o', u', p', s') := b in String.eqb o o' && Bool.eqb u u' && Nat.eqb p p' && assoc_eqb s s'.
Fixpoint lookup (tbl : list tentry) (o : string) (u : bool) : option (nat * assoc) :=
  match tbl with
  | [] => None
  | (o', u', p, a) :: r => if String.eqb o o' && Bool.eqb u u' then Some (p, a) else lookup r o u
  end.
Definition prio_of (tbl : list tentry) (o : string) (u : bool) : nat := match lookup tbl o u with Some (p, _) => p | None => 0 end.
Definition lassoc_of (tbl : list tentry) (o : string) : bool := match lookup tbl o false with Some (_, ALeft) => true | _ => false end.
Definition parse_tbl (tbl : list tentry) := parse string (prio_of tbl) (lassoc_of tbl).
(* every operator of the input is in the table with the arity it is used with (otherwise the real parsers reject) *)
Definition known (tbl : list tentry) (first : elem string) (rest : list (string * elem string)) : bool :=
  forallb (fun u => match lookup tbl u true with Some _ => true | None => false end) (fst first) &&
  forallb (fun e : string * elem string => match lookup tbl (fst e) false with Some _ => true | None => false end &&
                     forallb (fun u => match lookup tbl u true with Some _ => true | None => false end) (fst (snd e))) rest.
(* table well-formedness: one entry per (operator, arity); unary entries carry no associativity, binary ones do *)
Fixpoint nodup_keys (tbl : list tentry) : bool :=
  match tbl with
  | [] => true
  | (o, u, _, _) :: r => match lookup r o u with None => nodup_keys r | Some _ => false end
  end.
Definition wf_table (tbl : list tentry) : bool :=
  nodup_keys tbl && forallb (fun e : tentry => let '(_, u, _, a) := e in if u then assoc_eqb a ANone else negb (assoc_eqb a ANone)) tbl.
Definition same_table (a b : list tentry) : bool :=
  forallb (fun e => existsb (entry_eqb e) b) a && forallb (fun e => existsb (entry_eqb e) a) b.
Definition sub_table (a b : list tentry) : bool := forallb (fun e => existsb (entry_eqb e) b) a.
