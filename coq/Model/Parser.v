From Coq Require Import List Bool Arith Lia.
Import ListNotations.
(* Operator-precedence parsing as in TheoryParser.parse (transformers/head.py) / gringo's theory parser, over an abstract table.
   Frame-based presentation of the stack: a frame is a pending operator (prefix, or binary with its completed left operand). *)
Section Parser.
Variable op : Type.
Variable prio : op -> bool -> nat.          (* priority of (operator, unary?) *)
Variable lassoc : op -> bool.               (* associativity of the binary operator: true = left *)
Inductive tree := Leaf (n:nat) | Un (o:op) (t:tree) | Bin (o:op) (l r:tree).
Inductive frame := FU (o:op) | FB (o:op) (a:tree).
Definition fprio (f:frame) : nat := match f with FU o => prio o true | FB o _ => prio o false end.
Definition close (f:frame) (b:tree) : tree := match f with FU o => Un o b | FB o a => Bin o a b end.
(* __check: must the pending frame be reduced before pushing binary operator o ? *)
Definition stronger (f:frame) (o:op) : bool := (prio o false <? fprio f) || ((fprio f =? prio o false) && lassoc o).
(* input: first element = prefix operators + leaf; later elements = binary operator, prefix operators, leaf *)
Definition elem := (list op * nat)%type.
Fixpoint push_unaries (us:list op) (fs:list frame) : list frame := match us with [] => fs | u::r => push_unaries r (FU u :: fs) end.
Fixpoint reduce_while (o:op) (fs:list frame) (cur:tree) : list frame * tree :=
  match fs with
  | f :: r => if stronger f o then reduce_while o r (close f cur) else (fs, cur)
  | [] => ([], cur)
  end.
Fixpoint close_all (fs:list frame) (cur:tree) : tree := match fs with [] => cur | f :: r => close_all r (close f cur) end.
Definition step (st : list frame * tree) (e : op * elem) : list frame * tree :=
  let '(fs, cur) := st in let '(o, (us, n)) := e in
  let '(fs', a) := reduce_while o fs cur in (push_unaries us (FB o a :: fs'), Leaf n).
Definition parse (first:elem) (rest:list (op * elem)) : tree :=
  let '(fs, cur) := fold_left step rest (push_unaries (fst first) [], Leaf (snd first)) in close_all fs cur.
(* ---------- specification: the tree respects the table ---------- *)
Fixpoint rspine (t:tree) : list (op*bool) := match t with Leaf _ => [] | Un o x => (o,true) :: rspine x | Bin o _ r => (o,false) :: rspine r end.
Fixpoint lspine (t:tree) : list op := match t with Bin o l _ => o :: lspine l | _ => [] end.
Definition tighter (p:nat) (c:op) : Prop := p < prio c false \/ (prio c false = p /\ lassoc c = false).     (* c may sit on the left spine of the operand to the right of an operator of priority p *)
Definition rtight (o:op) (c:op*bool) : Prop := prio o false < prio (fst c) (snd c) \/ (prio (fst c) (snd c) = prio o false /\ lassoc o = true).
Fixpoint respects (t:tree) : Prop :=
  match t with
  | Leaf _ => True
  | Un u x => Forall (tighter (prio u true)) (lspine x) /\ respects x
  | Bin o l r => Forall (rtight o) (rspine l) /\ Forall (tighter (prio o false)) (lspine r) /\ respects l /\ respects r
  end.
(* ---------- invariant of the stack ---------- *)
Definition frame_ok (f:frame) : Prop := match f with FU _ => True | FB o a => respects a /\ Forall (rtight o) (rspine a) end.
(* chain: what the frame below demands of a binary frame above it *)
Definition above_ok (g:frame) (f:frame) : Prop := match f with FU _ => True | FB o a => tighter (fprio g) o /\ Forall (tighter (fprio g)) (lspine a) end.
Fixpoint chain (fs:list frame) : Prop :=      (* fs: top first *)
  match fs with
  | f :: ((g :: _) as r) => above_ok g f /\ chain r
  | _ => True
  end.
Definition cur_ok (fs:list frame) (cur:tree) : Prop := respects cur /\ match fs with g :: _ => Forall (tighter (fprio g)) (lspine cur) | [] => True end.
Definition Inv (fs:list frame) (cur:tree) : Prop := Forall frame_ok fs /\ chain fs /\ cur_ok fs cur.
Lemma stronger_false g o : stronger g o = false -> tighter (fprio g) o.
Proof.
  unfold stronger, tighter. intros E. apply orb_false_iff in E as [E1 E2]. apply Nat.ltb_ge in E1.
  apply andb_false_iff in E2 as [E2|E2].
  - apply Nat.eqb_neq in E2. left. lia.
  - destruct (Nat.eq_dec (prio o false) (fprio g)); [right; auto|left; lia].
Qed.
Lemma stronger_true f o : stronger f o = true -> rtight o (match f with FU p => (p,true) | FB p _ => (p,false) end).
Proof.
  unfold stronger, rtight. intros E. apply orb_true_iff in E as [E|E].
  - apply Nat.ltb_lt in E. left. destruct f; exact E.
  - apply andb_true_iff in E as [E1 E2]. apply Nat.eqb_eq in E1. right. destruct f; cbn in *; auto.
Qed.
Lemma rspine_close f b : rspine (close f b) = (match f with FU p => (p,true) | FB p _ => (p,false) end) :: rspine b.
Proof. destruct f; reflexivity. Qed.
(* closing the top frame keeps the invariant *)
Lemma close_inv f r cur : Inv (f :: r) cur -> Inv r (close f cur).
Proof.
  intros [Fo [Ch [Rc Lc]]]. inversion Fo as [|f' r' Hf Hr]; subst. split; [exact Hr|]. split.
  - destruct r as [|g r]; [exact I|]. exact (proj2 Ch).
  - split.
    + destruct f as [p|p a]; cbn [close respects]; [split; assumption|]. destruct Hf as [Ra Sa]. repeat split; assumption.
    + destruct r as [|g r]; [exact I|]. destruct Ch as [Ab _]. destruct f as [p|p a]; cbn [close lspine]; [constructor|].
      destruct Ab as [To Ta]. constructor; assumption.
Qed.
Lemma reduce_while_inv o : forall fs cur, Inv fs cur -> Forall (rtight o) (rspine cur) ->
  let '(fs', a) := reduce_while o fs cur in Inv fs' a /\ Forall (rtight o) (rspine a) /\ match fs' with g :: _ => tighter (fprio g) o | [] => True end.
Proof.
  induction fs as [|f r IH]; intros cur I R; cbn [reduce_while].
  - auto.
  - destruct (stronger f o) eqn:S.
    + apply IH; [now apply close_inv|]. rewrite rspine_close. constructor; [now apply stronger_true|exact R].
    + split; [exact I|]. split; [exact R|]. now apply stronger_false.
Qed.
Lemma push_unaries_inv us : forall fs n, Forall frame_ok fs -> chain fs -> Inv (push_unaries us fs) (Leaf n).
Proof.
  induction us as [|u us IH]; intros fs n Fo Ch; cbn [push_unaries].
  - split; [exact Fo|]. split; [exact Ch|]. split; [exact I|]. destruct fs; [exact I|constructor].
  - apply IH; [constructor; [exact I|exact Fo]|]. destruct fs as [|g r]; [exact I|]. split; [exact I|exact Ch].
Qed.
Lemma step_inv st e : Inv (fst st) (snd st) -> rspine (snd st) = [] -> Inv (fst (step st e)) (snd (step st e)) /\ rspine (snd (step st e)) = [].
Proof.
  destruct st as [fs cur]. destruct e as [o [us n]]. cbn [fst snd step]. intros Iv R.
  pose proof (reduce_while_inv o fs cur Iv) as RW. rewrite R in RW. specialize (RW (Forall_nil _)).
  destruct (reduce_while o fs cur) as [fs' a]. destruct RW as [[Fo [Ch [Ra La]]] [Sa Tg]]. cbn [fst snd]. split; [|reflexivity].
  apply push_unaries_inv.
  - constructor; [split; assumption|exact Fo].
  - destruct fs' as [|g r]; [cbn; exact I|]. split; [split; assumption|exact Ch].
Qed.
Lemma close_all_respects : forall fs cur, Inv fs cur -> respects (close_all fs cur).
Proof. induction fs as [|f r IH]; intros cur I; cbn [close_all]; [exact (proj1 (proj2 (proj2 I)))|]. apply IH. now apply close_inv. Qed.
Theorem parse_respects first rest : respects (parse first rest).
Proof.
  unfold parse.
  assert (forall rest st, Inv (fst st) (snd st) -> rspine (snd st) = [] ->
            Inv (fst (fold_left step rest st)) (snd (fold_left step rest st))) as F.
  { induction rest0 as [|e r IH]; intros st I R; cbn [fold_left]; [exact I|]. destruct (step_inv st e I R) as [I' R']. now apply IH. }
  specialize (F rest (push_unaries (fst first) [], Leaf (snd first))). cbn [fst snd] in F.
  destruct (fold_left step rest (push_unaries (fst first) [], Leaf (snd first))) as [fs cur]. apply close_all_respects.
  apply F; [|reflexivity]. apply push_unaries_inv; [constructor|exact I].
Qed.
(* ---------- nothing is lost or reordered ---------- *)
Definition token := (nat + op)%type.
Fixpoint flat (t:tree) : list token := match t with Leaf n => [inl n] | Un o x => inr o :: flat x | Bin o l r => flat l ++ inr o :: flat r end.
Definition ftok (f:frame) : list token := match f with FU o => [inr o] | FB o a => flat a ++ [inr o] end.
Definition fflat (fs:list frame) : list token := concat (map ftok (rev fs)).        (* bottom of the stack first *)
Lemma fflat_cons f r : fflat (f :: r) = fflat r ++ ftok f.
Proof. unfold fflat. cbn [rev]. rewrite map_app, concat_app. cbn. now rewrite app_nil_r. Qed.
Lemma close_flat f r cur : fflat (f :: r) ++ flat cur = fflat r ++ flat (close f cur).
Proof. rewrite fflat_cons, <- app_assoc. f_equal. destruct f as [o|o a]; cbn; [reflexivity|now rewrite <- app_assoc]. Qed.
Lemma reduce_while_flat o : forall fs cur, let '(fs', a) := reduce_while o fs cur in fflat fs' ++ flat a = fflat fs ++ flat cur.
Proof.
  induction fs as [|f r IH]; intros cur; cbn [reduce_while]; [reflexivity|]. destruct (stronger f o); [|reflexivity].
  specialize (IH (close f cur)). destruct (reduce_while o r (close f cur)) as [fs' a]. now rewrite IH, close_flat.
Qed.
Lemma push_unaries_flat us : forall fs, fflat (push_unaries us fs) = fflat fs ++ map inr us.
Proof. induction us as [|u us IH]; intros fs; cbn [push_unaries map]; [now rewrite app_nil_r|]. rewrite IH, fflat_cons. cbn. now rewrite <- app_assoc. Qed.
Lemma close_all_flat : forall fs cur, flat (close_all fs cur) = fflat fs ++ flat cur.
Proof. induction fs as [|f r IH]; intros cur; cbn [close_all]; [reflexivity|]. now rewrite IH, close_flat. Qed.
Definition etoks (e : op * elem) : list token := inr (fst e) :: map inr (fst (snd e)) ++ [inl (snd (snd e))].
Theorem parse_flat first rest : flat (parse first rest) = map inr (fst first) ++ [inl (snd first)] ++ concat (map etoks rest).
Proof.
  unfold parse.
  assert (forall rest st, let st' := fold_left step rest st in fflat (fst st') ++ flat (snd st') = fflat (fst st) ++ flat (snd st) ++ concat (map etoks rest)) as F.
  { induction rest0 as [|e r IH]; intros st; cbn [fold_left map concat]; [now rewrite app_nil_r|]. rewrite IH. clear IH.
    destruct st as [fs cur]. destruct e as [o [us n]]. cbn [step fst snd].
    pose proof (reduce_while_flat o fs cur) as RW. destruct (reduce_while o fs cur) as [fs' a]. cbn [fst snd].
    rewrite push_unaries_flat, fflat_cons. cbn [ftok flat etoks fst snd]. rewrite <- !app_assoc. rewrite (app_assoc (fflat fs') (flat a)), RW.
    rewrite <- !app_assoc. cbn [app]. unfold etoks. cbn [fst snd app]. rewrite <- !app_assoc. reflexivity. }
  specialize (F rest (push_unaries (fst first) [], Leaf (snd first))). cbn [fst snd] in F.
  destruct (fold_left step rest (push_unaries (fst first) [], Leaf (snd first))) as [fs cur]. cbn [fst snd] in F.
  rewrite close_all_flat, F, push_unaries_flat. reflexivity.
Qed.
End Parser.

