(* Meaning of the clause tables of the theory layer (definitions only; the lemmas about the regenerated tables are in Proofs/Leaf_theory.v) *)
Require Import GenPrelude TheoryPrelude.
Definition evl (v : lvar -> bool) (l : slit) : bool := match l with P x => v x | N x => negb (v x) end.
(* no constraint body is satisfied *)
Definition holds (v : lvar -> bool) (cs : list (list slit)) : bool := forallb (fun c => negb (forallb (evl v) c)) cs.
Definition tel_spec (op : telop) (has : bool) (lhs rhs pre : bool) : bool :=
  match op with
  | OpSince | OpUntil => rhs || ((if has then lhs else true) && pre)
  | OpTrigger | OpRelease => rhs && ((if has then lhs else false) || pre)
  end.
Definition bool_spec (op : boolop) (lhs rhs : bool) : bool :=
  match op with OpAnd => lhs && rhs | OpOr => lhs || rhs | OpLImp => lhs || negb rhs | OpRImp => negb lhs || rhs | OpEqv => Bool.eqb lhs rhs end.
