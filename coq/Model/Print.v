(* Model of TelApp.print_model: the shown symbols of an answer set are grouped by their last argument and printed state
   by state.  The guards (which symbols get a state, which are hidden, how many states) are regenerated from the source. *)
Require Import GenPrelude FromApp.
Local Open Scope string_scope.
Record psym := { is_fun : bool; dunder : bool; nargs : nat; last : option Z; txt : string }.
   (* last = Some t iff the symbol has arguments and its last argument is the number t; txt = the symbol without it *)
Inductive pout := Printed (states : list (list string)) | PRaises.
(* first loop: the table last argument -> symbols; `.number` on a non-number raises *)
Fixpoint table (l : list psym) : option (list (Z * psym)) :=
  match l with
  | [] => Some []
  | s :: r =>
    match printable_gen (is_fun s) (nargs s) (match last s with Some _ => true | None => false end), table r with
    | Some true, Some t => match last s with Some k => Some ((k, s) :: t) | None => None end
    | Some false, Some t => Some t
    | _, _ => None
    end
  end.
Fixpoint state_of (k : Z) (t : list (Z * psym)) : option (list string) :=
  match t with
  | [] => Some []
  | (j, s) :: r =>
    match state_of k r with
    | Some l => if (j =? k)%Z then match visible_gen (dunder s) with Some true => Some (txt s :: l) | Some false => Some l | None => None end else Some l
    | None => None
    end
  end.
Fixpoint states (t : list (Z * psym)) (n : nat) : option (list (list string)) :=     (* states n-1 down to 0, accumulated in order *)
  match n with
  | 0 => Some []
  | S m => match states t m, state_of (Z.of_nat m) t with Some a, Some b => Some (a ++ [b])%list | _, _ => None end
  end.
Definition print_model (shown : list psym) (horizon : nat) : pout :=
  match table shown, nstates_gen horizon with
  | Some t, Some n => match states t (Z.to_nat n) with Some l => Printed l | None => PRaises end
  | _, _ => PRaises
  end.
