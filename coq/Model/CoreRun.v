From Coq Require Import List Bool Arith ZArith Lia.
Import ListNotations.
Require Import HT TEL TELext DecP.
Section Core.
Variable A : Type.
(* ---------- source syntax (reduced C01 fragment) ---------- *)
Inductive sgn := Pos | Neg | NegNeg.
Inductive batom := BAt (a:A) (past:nat) | BInit (a:A) | BKwI | BKwF.
Inductive shead := SNorm (a:A) | SDisj (l:list A) | SChoice (l:list A) | SCons.
Inductive spart := Initial | Always | Dynamic | Final.
Record srule := { sp : spart; sh : shead; sb : list (sgn * batom) }.
(* ---------- denotation in THT_f ---------- *)
Notation tf := (tf A).
Definition TTop : tf := TImp A (TBot A) (TBot A).
Definition TNot (f:tf) : tf := TImp A f (TBot A).
Definition sgn_tf (s:sgn) (f:tf) : tf := match s with Pos => f | Neg => TNot f | NegNeg => TNot (TNot f) end.
Definition batom_tf (b:batom) : tf :=
  match b with
  | BAt a 0 => TAt A a
  | BAt a (S n) => TPv A false (S n) (TAt A a)
  | BInit a => TAt0 A a
  | BKwI => TPv A true 1 (TBot A)           (* true exactly at position 0 *)
  | BKwF => TNx A true 1 (TBot A)           (* true exactly at the last position *)
  end.
Fixpoint body_tf (l:list (sgn*batom)) : tf := match l with [] => TTop | (s,b)::r => TAnd A (sgn_tf s (batom_tf b)) (body_tf r) end.
Fixpoint disj_tf (l:list A) : tf := match l with [] => TBot A | a::r => TOr A (TAt A a) (disj_tf r) end.
Fixpoint choice_tf (l:list A) : tf := match l with [] => TTop | a::r => TAnd A (TOr A (TAt A a) (TNot (TAt A a))) (choice_tf r) end.
Definition head_tf (h:shead) : tf := match h with SNorm a => TAt A a | SDisj l => disj_tf l | SChoice l => choice_tf l | SCons => TBot A end.
Definition rule_tf (r:srule) : tf := TImp A (body_tf (sb r)) (head_tf (sh r)).
(* ---------- operational side: transform (time-parametric) and ground ---------- *)
Inductive gatom := GU (a:A) (t:Z) | GI (t:Z) | GF (t:Z).
Notation gf := (form gatom).
Inductive tterm := Tt (back:nat) | T0.                     (* __t - back  |  0 *)
Inductive patom := PU (a:A) (tm:tterm) | PI | PF.          (* __initial(__t), __final(__t) *)
Inductive opart := OInitial | OAlways | ODynamic.
Record prule := { pp : opart; ph : shead; pb : list (sgn * patom) }.
Definition tr_batom (b:batom) : patom := match b with BAt a n => PU a (Tt n) | BInit a => PU a T0 | BKwI => PI | BKwF => PF end.
Definition transform (r:srule) : prule :=
  {| pp := match sp r with Initial => OInitial | Always => OAlways | Dynamic => ODynamic | Final => OAlways end;
     ph := sh r;
     pb := (if match sp r with Final => true | _ => false end then [(Pos, PF)] else []) ++ map (fun '(s,b) => (s, tr_batom b)) (sb r) |}.
Definition inst_tm (t:Z) (tm:tterm) : Z := match tm with Tt n => (t - Z.of_nat n)%Z | T0 => 0%Z end.
Definition inst (t:Z) (p:patom) : gatom := match p with PU a tm => GU a (inst_tm t tm) | PI => GI t | PF => GF t end.
Definition GTop : gf := Imp _ (Bot _) (Bot _).
Definition GNot (f:gf) : gf := Imp _ f (Bot _).
Definition sgn_gf (s:sgn) (f:gf) : gf := match s with Pos => f | Neg => GNot f | NegNeg => GNot (GNot f) end.
Fixpoint body_gf (t:Z) (l:list (sgn*patom)) : gf := match l with [] => GTop | (s,p)::r => And _ (sgn_gf s (Var _ (inst t p))) (body_gf t r) end.
Fixpoint disj_gf (t:Z) (l:list A) : gf := match l with [] => Bot _ | a::r => Or _ (Var _ (GU a t)) (disj_gf t r) end.
Fixpoint choice_gf (t:Z) (l:list A) : gf := match l with [] => GTop | a::r => And _ (Or _ (Var _ (GU a t)) (GNot (Var _ (GU a t)))) (choice_gf t r) end.
Definition head_gf (t:Z) (h:shead) : gf := match h with SNorm a => Var _ (GU a t) | SDisj l => disj_gf t l | SChoice l => choice_gf t l | SCons => Bot _ end.
Definition ground (t:Z) (r:prule) : gf := Imp _ (body_gf t (pb r)) (head_gf t (ph r)).
(* regenerated from imain in the real development *)
Definition part_selected (p:opart) (step:nat) : bool := match p with OAlways => true | ODynamic => 0 <? step | OInitial => step =? 0 end.
Definition ground_step (P:list srule) (s:nat) : list gf :=
  map (ground (Z.of_nat s)) (filter (fun r => part_selected (pp r) s) (map transform P)).
Definition rules (P:list srule) (h:nat) : list gf := flat_map (ground_step P) (seq 0 (S h)).
(* ---------- decided atoms at horizon h ---------- *)
Variable h : nat.
Definition dec (g:gatom) : option bool :=
  match g with
  | GI t => Some (t =? 0)%Z
  | GF t => Some (t =? Z.of_nat h)%Z
  | GU a t => if (0 <=? t)%Z && (t <=? Z.of_nat h)%Z then None else Some false
  end.
Definition tr (I:interp gatom) : trace A := fun k a => I (GU a (Z.of_nat k)).
Definition admissible (p:spart) (k:nat) : bool := match p with Initial => k =? 0 | Always => true | Dynamic => 0 <? k | Final => k =? h end.
Section PerRule.
Variables H T : interp gatom.
Hypothesis AgH : agrees _ dec H.
Hypothesis AgT : agrees _ dec T.
Notation tsatH := (tsat A h (tr H) (tr T)).
Notation lsatT := (lsat A h (tr T)).
Lemma neg_time I a (t:Z) : agrees _ dec I -> (t < 0)%Z -> I (GU a t) = false.
Proof. intros Ag Ht. apply Ag. cbn. destruct (0 <=? t)%Z eqn:E; [apply Z.leb_le in E; lia|reflexivity]. Qed.
Lemma var_c b k : k <= h -> T (inst (Z.of_nat k) (tr_batom b)) = lsatT (batom_tf b) k.
Proof.
  intros Hk. destruct b as [a [|n]|a| |]; cbn [tr_batom inst inst_tm batom_tf lsat].
  - unfold tr. f_equal. f_equal. lia.
  - destruct (S n <=? k) eqn:E.
    + apply Nat.leb_le in E. unfold tr. f_equal. f_equal. lia.
    + apply Nat.leb_gt in E. apply neg_time; [assumption|lia].
  - reflexivity.
  - rewrite (AgT (GI (Z.of_nat k)) _ eq_refl). destruct k as [|k]; cbn; reflexivity.
  - rewrite (AgT (GF (Z.of_nat k)) _ eq_refl). destruct (k+1 <=? h) eqn:E.
    + apply Nat.leb_le in E. apply Z.eqb_neq. lia.
    + apply Nat.leb_gt in E. apply Z.eqb_eq. lia.
Qed.
Lemma var_h b k : k <= h -> H (inst (Z.of_nat k) (tr_batom b)) = tsatH (batom_tf b) k.
Proof.
  intros Hk. destruct b as [a [|n]|a| |]; cbn [tr_batom inst inst_tm batom_tf tsat].
  - unfold tr. f_equal. f_equal. lia.
  - destruct (S n <=? k) eqn:E.
    + apply Nat.leb_le in E. unfold tr. f_equal. f_equal. lia.
    + apply Nat.leb_gt in E. apply neg_time; [assumption|lia].
  - reflexivity.
  - rewrite (AgH (GI (Z.of_nat k)) _ eq_refl). destruct k as [|k]; cbn; reflexivity.
  - rewrite (AgH (GF (Z.of_nat k)) _ eq_refl). destruct (k+1 <=? h) eqn:E.
    + apply Nat.leb_le in E. apply Z.eqb_neq. lia.
    + apply Nat.leb_gt in E. apply Z.eqb_eq. lia.
Qed.
Lemma lit_c s b k : k <= h -> csat _ T (sgn_gf s (Var _ (inst (Z.of_nat k) (tr_batom b)))) = lsatT (sgn_tf s (batom_tf b)) k.
Proof. intros Hk. destruct s; cbn [sgn_gf sgn_tf GNot TNot csat lsat]; now rewrite var_c. Qed.
Lemma lit_h s b k : k <= h -> hsat _ H T (sgn_gf s (Var _ (inst (Z.of_nat k) (tr_batom b)))) = tsatH (sgn_tf s (batom_tf b)) k.
Proof. intros Hk. destruct s; cbn [sgn_gf sgn_tf GNot TNot hsat csat tsat lsat]; now rewrite ?var_h, ?var_c. Qed.
Lemma body_c l k : k <= h -> csat _ T (body_gf (Z.of_nat k) (map (fun '(s,b) => (s, tr_batom b)) l)) = lsatT (body_tf l) k.
Proof. intros Hk. induction l as [|[s b] l IH]; cbn [map body_gf body_tf csat lsat]; [reflexivity|]. now rewrite lit_c, IH. Qed.
Lemma body_h l k : k <= h -> hsat _ H T (body_gf (Z.of_nat k) (map (fun '(s,b) => (s, tr_batom b)) l)) = tsatH (body_tf l) k.
Proof. intros Hk. induction l as [|[s b] l IH]; cbn [map body_gf body_tf hsat tsat]; [reflexivity|]. now rewrite lit_h, IH. Qed.
Lemma head_c hd k : csat _ T (head_gf (Z.of_nat k) hd) = lsatT (head_tf hd) k.
Proof.
  destruct hd as [a|l|l|]; cbn [head_gf head_tf csat lsat]; try reflexivity.
  - induction l as [|a l IH]; cbn [disj_gf disj_tf csat lsat]; [reflexivity|]. now rewrite IH.
  - induction l as [|a l IH]; cbn [choice_gf choice_tf csat lsat GNot TNot]; [reflexivity|]. now rewrite IH.
Qed.
Lemma head_h hd k : hsat _ H T (head_gf (Z.of_nat k) hd) = tsatH (head_tf hd) k.
Proof.
  destruct hd as [a|l|l|]; cbn [head_gf head_tf hsat tsat]; try reflexivity.
  - induction l as [|a l IH]; cbn [disj_gf disj_tf hsat tsat]; [reflexivity|]. now rewrite IH.
  - induction l as [|a l IH]; cbn [choice_gf choice_tf hsat csat tsat lsat GNot TNot]; [reflexivity|]. now rewrite IH.
Qed.
(* the ground instance of a transformed rule at step k means: the rule at k if its part is admissible there, otherwise nothing *)
Theorem instance_meaning r k : k <= h -> part_selected (pp (transform r)) k = true ->
  hsat _ H T (ground (Z.of_nat k) (transform r)) = if admissible (sp r) k then tsatH (rule_tf r) k else true.
Proof.
  intros Hk Sel. unfold ground, rule_tf. cbn [hsat tsat]. rewrite head_h, head_c.
  destruct r as [p hd bd]; destruct p; cbn [transform sp pp pb ph app admissible part_selected] in *.
  - rewrite Sel. now rewrite body_h, body_c.
  - now rewrite body_h, body_c.
  - rewrite Sel. now rewrite body_h, body_c.
  - cbn [body_gf hsat csat sgn_gf inst]. rewrite body_h, body_c by assumption.
    rewrite (AgH (GF (Z.of_nat k)) _ eq_refl), (AgT (GF (Z.of_nat k)) _ eq_refl).
    destruct (k =? h) eqn:E.
    + apply Nat.eqb_eq in E. subst. rewrite Z.eqb_refl. reflexivity.
    + apply Nat.eqb_neq in E. assert ((Z.of_nat k =? Z.of_nat h)%Z = false) as -> by (apply Z.eqb_neq; lia). reflexivity.
Qed.
End PerRule.
(* ---------- from instances to the whole accumulated program ---------- *)
Variable P : list srule.
Definition tmodel (H T:trace A) := forall r k, In r P -> k <= h -> admissible (sp r) k = true -> tsat A h H T (rule_tf r) k = true.
Definition tle (H T:trace A) := forall k a, k <= h -> H k a = true -> T k a = true.
Definition tstrict (H T:trace A) := tle H T /\ exists k a, k <= h /\ T k a = true /\ H k a = false.
Definition tsm (T:trace A) := tmodel T T /\ forall H, tstrict H T -> ~ tmodel H T.
Definition prog : theory gatom := of_list _ (rules P h).
Lemma adm_sel r k : admissible (sp r) k = true -> part_selected (pp (transform r)) k = true.
Proof. destruct r as [[] hd bd]; cbn; auto. Qed.
Lemma in_rules f : In f (rules P h) <-> exists r k, In r P /\ k <= h /\ part_selected (pp (transform r)) k = true /\ f = ground (Z.of_nat k) (transform r).
Proof.
  unfold rules, ground_step. rewrite in_flat_map. split.
  - intros [k [Hk Hf]]. apply in_seq in Hk. apply in_map_iff in Hf as [pr [<- Hpr]]. apply filter_In in Hpr as [Hpr Sel].
    apply in_map_iff in Hpr as [r [<- Hr]]. exists r, k. repeat split; auto; lia.
  - intros [r [k [Hr [Hk [Sel ->]]]]]. exists k. split; [apply in_seq; lia|]. apply in_map. apply filter_In. split; [now apply in_map|assumption].
Qed.
Lemma model_prog H T : agrees _ dec H -> agrees _ dec T -> (modelP _ H T prog <-> tmodel (tr H) (tr T)).
Proof.
  intros AgH AgT. split.
  - intros M r k Hr Hk Adm. pose proof (adm_sel r k Adm) as Sel.
    assert (hsat _ H T (ground (Z.of_nat k) (transform r)) = true) as Hs.
    { apply M. apply in_rules. exists r, k. auto. }
    rewrite (instance_meaning H T AgH AgT r k Hk Sel), Adm in Hs. exact Hs.
  - intros M f Hf. apply in_rules in Hf as [r [k [Hr [Hk [Sel ->]]]]].
    rewrite (instance_meaning H T AgH AgT r k Hk Sel). destruct (admissible (sp r) k) eqn:Adm; [|reflexivity]. now apply M.
Qed.
Definition lift (H:trace A) : interp gatom := fun g =>
  match g with
  | GU a t => if (0 <=? t)%Z && (t <=? Z.of_nat h)%Z then H (Z.to_nat t) a else false
  | GI t => (t =? 0)%Z
  | GF t => (t =? Z.of_nat h)%Z
  end.
Lemma lift_agrees H : agrees _ dec (lift H).
Proof. intros [a t|t|t] b; cbn; try congruence. destruct ((0 <=? t)%Z && (t <=? Z.of_nat h)%Z); congruence. Qed.
Lemma tr_lift H k a : k <= h -> tr (lift H) k a = H k a.
Proof.
  intros Hk. unfold tr, lift. assert ((0 <=? Z.of_nat k)%Z && (Z.of_nat k <=? Z.of_nat h)%Z = true) as ->.
  { apply andb_true_iff; split; apply Z.leb_le; lia. } now rewrite Nat2Z.id.
Qed.
Lemma in_range_dec a t : dec (GU a t) = None -> exists k, k <= h /\ t = Z.of_nat k.
Proof.
  cbn. destruct ((0 <=? t)%Z && (t <=? Z.of_nat h)%Z) eqn:E; [|discriminate]. intros _.
  apply andb_true_iff in E as [E1 E2]. apply Z.leb_le in E1, E2. exists (Z.to_nat t). split; lia.
Qed.
Theorem C01_reduced (T' : interp gatom) :
  equilibriumP _ T' (union _ prog (aux_theory _ dec)) <-> agrees _ dec T' /\ tsm (tr T').
Proof.
  rewrite decided_elimP. split.
  - intros [AgT [M Min]]. split; [assumption|]. split; [now apply model_prog|].
    intros H [Hle [k [a [Hk [Ht Hh]]]]] MH.
    apply (Min (lift H)).
    + split.
      * intros [b t|t|t]; cbn.
        -- destruct ((0 <=? t)%Z && (t <=? Z.of_nat h)%Z) eqn:E; [|discriminate].
           apply andb_true_iff in E as [E1 E2]. apply Z.leb_le in E1, E2. intros Hb.
           apply (Hle (Z.to_nat t) b) in Hb; [|lia]. unfold tr in Hb. now rewrite Z2Nat.id in Hb by lia.
        -- intros E. now rewrite (AgT (GI t) _ eq_refl).
        -- intros E. now rewrite (AgT (GF t) _ eq_refl).
      * exists (GU a (Z.of_nat k)). split; [exact Ht|]. change (tr (lift H) k a = false). now rewrite tr_lift.
    + apply lift_agrees.
    + apply model_prog; [apply lift_agrees|assumption|]. intros r j Hr Hj Adm.
      rewrite (tsat_ext A h (tr (lift H)) (tr T') H (tr T')); auto. intros; now apply tr_lift.
  - intros [AgT [M Min]]. split; [assumption|]. split; [now apply model_prog|].
    intros H [Hle [g [Hg1 Hg2]]] AgH MH. apply (Min (tr H)).
    + split.
      * intros k a _ Hka. apply Hle. exact Hka.
      * destruct g as [a t|t|t].
        -- destruct (dec (GU a t)) as [b|] eqn:E.
           ++ rewrite (AgT _ _ E) in Hg1. rewrite (AgH _ _ E) in Hg2. congruence.
           ++ apply in_range_dec in E as [k [Hk ->]]. exists k, a. auto.
        -- rewrite (AgT (GI t) _ eq_refl) in Hg1. rewrite (AgH (GI t) _ eq_refl) in Hg2. congruence.
        -- rewrite (AgT (GF t) _ eq_refl) in Hg1. rewrite (AgH (GF t) _ eq_refl) in Hg2. congruence.
    + now apply model_prog.
Qed.
End Core.

