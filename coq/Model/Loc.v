(* transformers/transformer.py: str_location - how a source location (begin and end position: file, line, column) is rendered in a diagnostic.
   The function itself is REGENERATED from the source on every run (Gen/FromLoc.v: str_location_gen, the statements of the Python function with
   its flags `ret`, `dash`, `eq` turned into a chain of lets); here it is only applied to positions.  In addition the function of /repo and this
   one are run on all pairs of positions over a small domain and on random ones (C11). *)
From Coq Require Import List Bool Arith.
Import ListNotations.
Require Import GenPrelude FromLoc.
Record pos := { pfile : nat; pline : nat; pcol : nat }.
Notation tok := ltok.
Definition str_location (b e : pos) : list tok := str_location_gen (pfile b) (pline b) (pcol b) (pfile e) (pline e) (pcol e).
(* the documented loc_shape, written from the description of the format (file:line:column, then the part of the end position from the first component that
   differs on): the reference the function of /repo is compared with on every run; Proofs/LocProofs.v proves the regenerated function equal to it *)
Definition head_of (b : pos) : list tok := [LFile (pfile b); LColon; LNum (pline b); LColon; LNum (pcol b)].
Definition loc_shape (b e : pos) : list tok :=
  head_of b ++
  (if negb (pfile b =? pfile e) then [LDash; LFile (pfile e); LColon; LNum (pline e); LColon; LNum (pcol e)]
   else if negb (pline b =? pline e) then [LDash; LNum (pline e); LColon; LNum (pcol e)]
   else if negb (pcol b =? pcol e) then [LDash; LNum (pcol e)]
   else []).
