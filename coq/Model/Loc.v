(* Model of transformers/transformer.py: str_location - how a source location (begin and end position: file, line, column) is rendered in a
   diagnostic.  Hand-written after the source (the flags `dash` and `eq` are kept as they are there); tied to it by the correspondence of C11
   (all pairs of positions over a small domain and random ones, rendered by the function of /repo and by this one). *)
From Coq Require Import List Bool Arith.
Import ListNotations.
Record pos := { pfile : nat; pline : nat; pcol : nat }.
Inductive tok := TFile (f : nat) | TNum (n : nat) | TColon | TDash.
Definition sep (dash : bool) : tok := if dash then TDash else TColon.
Definition str_location (b e : pos) : list tok :=
  let ret := [TFile (pfile b); TColon; TNum (pline b); TColon; TNum (pcol b)] in
  let dash := true in
  let eq := pfile b =? pfile e in
  let '(ret, dash) := if negb eq then (ret ++ [sep dash; TFile (pfile e)], false) else (ret, dash) in
  let eq := eq && (pline b =? pline e) in
  let '(ret, dash) := if negb eq then (ret ++ [sep dash; TNum (pline e)], false) else (ret, dash) in
  let eq := eq && (pcol b =? pcol e) in
  let '(ret, dash) := if negb eq then (ret ++ [sep dash; TNum (pcol e)], false) else (ret, dash) in
  ret.
