(* The domain rule of a ground head formula (transformers/head.py transform_theory_atom + HeadTransformer.transform): for every atom the time
   ranges of Model/HeadRanges.v merged by IntervalSet as half-open intervals [lo, hi+1).  An unbounded range takes part in the merge like any other
   (in the code its upper bound is the float infinity); here it gets an upper bound `big` beyond every number that occurs, and an interval that
   reaches `big` is unbounded.  Definitions only (extracted, driver command `hdm`); compared with the conditional literals of the rule telingo emits. *)
From Coq Require Import List Bool Arith ZArith Lia.
Require Import GenPrelude TheoryPrelude FormPrelude FromHeadRanges HeadShift HeadRanges IntervalSet.
Import ListNotations.
Section Domain.
Variable A : Type.
Variable eqA : A -> A -> bool.
Definition entry := (A * (Z * option Z))%type.          (* atom, lower bound, upper bound (None: unbounded) of  __t - __S *)
Fixpoint nodup_by {X} (eq : X -> X -> bool) (l : list X) : list X :=
  match l with [] => [] | x :: r => if existsb (eq x) r then nodup_by eq r else x :: nodup_by eq r end.
Definition maxb (rs : list (A * rng)) : Z :=
  fold_right (fun e m => Z.max (Z.max (Z.of_nat (fst (snd e))) (match snd (snd e) with Some h => Z.of_nat h | None => 0%Z end)) m) 0%Z rs.
Definition big (rs : list (A * rng)) : Z := (maxb rs + 2)%Z.
Definition ivs_of (rs : list (A * rng)) (a : A) : list iv :=
  flat_map (fun e => if eqA a (fst e) then [(Z.of_nat (fst (snd e)), match snd (snd e) with Some hi => (Z.of_nat hi + 1)%Z | None => big rs end)] else []) rs.
Definition entries_of (rs : list (A * rng)) : list entry :=
  flat_map (fun a => map (fun i => (a, (fst i, if (big rs <=? snd i)%Z then None else Some (snd i - 1)%Z))) (of_list (ivs_of rs a))) (nodup_by eqA (map fst rs)).
Definition entries (p : hf A) : list entry := entries_of (ranges A p (0, Some 0)).
Definition covers (d : nat) (e : entry) : Prop :=
  (fst (snd e) <= Z.of_nat d)%Z /\ match snd (snd e) with Some hi => (Z.of_nat d <= hi)%Z | None => True end.
End Domain.
