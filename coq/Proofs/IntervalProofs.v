(* IntervalSet.add keeps the intervals sorted, non-empty and separated, and adds exactly the points of the new interval *)
From Coq Require Import List Bool ZArith Lia.
Require Import GenPrelude FromHeadRanges IntervalSet.
Import ListNotations.
Local Open Scope Z_scope.
Lemma before_spec a b : before a b = (snd a <? fst b).
Proof. reflexivity. Qed.
Lemma iunion_spec a b : iunion a b = (Z.min (fst a) (fst b), Z.max (snd a) (snd b)).
Proof. reflexivity. Qed.
Lemma iempty_spec a : iempty a = (snd a <=? fst a).
Proof. unfold iempty, interval_empty_gen. cbn [olift2]. now rewrite Z.geb_leb. Qed.
Definition inb (z : Z) (y : iv) : bool := (fst y <=? z) && (z <? snd y).
Definition mem (z : Z) (l : list iv) : bool := existsb (inb z) l.
Fixpoint wf (l : list iv) : Prop :=
  match l with
  | [] => True
  | x :: r => fst x < snd x /\ (match r with [] => True | x' :: _ => snd x < fst x' end) /\ wf r
  end.
Definition lb (b : Z) (l : list iv) : Prop := match l with [] => True | x :: _ => b < fst x end.
Lemma inb_union z y x : fst x <= snd y -> fst y <= snd x -> inb z (iunion y x) = inb z y || inb z x.
Proof.
  intros H1 H2. rewrite iunion_spec. unfold inb. cbn [fst snd].
  destruct (Z.leb_spec (Z.min (fst y) (fst x)) z), (Z.ltb_spec z (Z.max (snd y) (snd x))), (Z.leb_spec (fst y) z), (Z.ltb_spec z (snd y)), (Z.leb_spec (fst x) z), (Z.ltb_spec z (snd x));
    cbn; try reflexivity; lia.
Qed.
Lemma merge_ok : forall l y, fst y < snd y -> wf l -> (match l with x :: _ => fst y <= snd x | [] => True end) ->
  wf (merge y l) /\ (forall z, mem z (merge y l) = inb z y || mem z l) /\ (forall b, b < fst y -> lb b l -> lb b (merge y l)).
Proof.
  induction l as [|x r IH]; intros y Ny W Hh; cbn [merge].
  - repeat split; auto; try (intros z; cbn; now rewrite orb_false_r).
  - destruct W as [Nx [Sep Wr]]. rewrite before_spec. destruct (Z.ltb_spec (snd y) (fst x)) as [B|B].
    + repeat split; auto.
    + assert (fst (iunion y x) < snd (iunion y x)) as Nu by (rewrite iunion_spec; cbn [fst snd]; lia).
      assert (match r with x2 :: _ => fst (iunion y x) <= snd x2 | [] => True end) as Hr.
      { destruct r as [|x2 r2]; [exact I|]. destruct Wr as [N2 _]. rewrite iunion_spec. cbn [fst snd]. lia. }
      destruct (IH (iunion y x) Nu Wr Hr) as [W' [M' L']]. split; [exact W'|]. split.
      * intros z. rewrite M', inb_union by lia. cbn [mem existsb]. now rewrite orb_assoc.
      * intros b Hb Lb. cbn [lb] in Lb. apply L'; [rewrite iunion_spec; cbn [fst snd]; lia|]. destruct r as [|x2 r2]; cbn [lb]; [exact I|lia].
Qed.
Lemma add_from_ok : forall l y, fst y < snd y -> wf l ->
  wf (add_from y l) /\ (forall z, mem z (add_from y l) = inb z y || mem z l) /\ (forall b, b < fst y -> lb b l -> lb b (add_from y l)).
Proof.
  induction l as [|x r IH]; intros y Ny W; cbn [add_from].
  - repeat split; auto; try (intros z; cbn; now rewrite orb_false_r).
  - pose proof W as [Nx [Sep Wr]]. rewrite before_spec. destruct (Z.ltb_spec (snd x) (fst y)) as [B|B].
    + destruct (IH y Ny Wr) as [W' [M' L']]. split; [|split].
      * cbn [wf]. split; [exact Nx|]. split; [|exact W'].
        assert (lb (snd x) (add_from y r)) as Lh by (apply L'; [exact B|destruct r as [|x2 r2]; cbn [lb]; [exact I|exact Sep]]).
        destruct (add_from y r); [exact I|exact Lh].
      * intros z. cbn [mem existsb]. fold (mem z (add_from y r)). rewrite M'. fold (mem z r). destruct (inb z x), (inb z y); reflexivity.
      * intros b Hb Lb. exact Lb.
    + apply (merge_ok (x :: r) y Ny W). exact B.
Qed.
Theorem add_ok l y : wf l -> wf (add y l) /\ forall z, mem z (add y l) = inb z y || mem z l.
Proof.
  intros W. unfold add. rewrite iempty_spec. destruct (Z.leb_spec (snd y) (fst y)) as [E|E].
  - split; [exact W|]. intros z. unfold inb. destruct (Z.leb_spec (fst y) z), (Z.ltb_spec z (snd y)); cbn; try reflexivity; lia.
  - destruct (add_from_ok l y E W) as [W' [M' _]]. split; assumption.
Qed.
Theorem of_list_ok xs : wf (of_list xs) /\ forall z, mem z (of_list xs) = existsb (inb z) xs.
Proof.
  unfold of_list. assert (forall l, wf l -> wf (fold_left (fun l y => add y l) xs l) /\ forall z, mem z (fold_left (fun l y => add y l) xs l) = mem z l || existsb (inb z) xs) as G.
  { induction xs as [|y r IH]; intros l W; cbn [fold_left existsb].
    - split; [exact W|]. intros z. now rewrite orb_false_r.
    - destruct (add_ok l y W) as [W1 M1]. destruct (IH (add y l) W1) as [W2 M2]. split; [exact W2|]. intros z. rewrite M2, M1.
      destruct (inb z y), (mem z l), (existsb (inb z) r); reflexivity. }
  destruct (G [] I) as [W M]. split; [exact W|]. intros z. now rewrite M.
Qed.
