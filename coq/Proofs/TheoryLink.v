(* Links between the layers of the body theory development:
   - the LTLf semantics of the model's formula objects (BodyTheoryFull.lsat) is the semantics of the specification (TEL.lsat) under an embedding;
   - the object that TheoryBuild.den builds for a table entry of create_formula has the value semantics of Model/BodyForm.v (fval), which
     Model/BodyForm.v proves to be the documented reading of the operator.
   Together with BodyTheoryFull.value_full: the literal cached for the object built for `op args` has, in every assignment that violates no
   emitted constraint, the LTLf value of the documented reading of op applied to the values of its arguments. *)
From Coq Require Import List Bool Arith ZArith Lia String.
Require Import GenPrelude TheoryPrelude FromTheory FormPrelude FromBodyForm HT TEL TELext PrefixSpec Laws TheorySem BodyForm BodyTheoryFull TheoryBuild.
Local Open Scope string_scope.
Local Open Scope nat_scope.
Section Link.
Variable A : Type.
Variable h : nat.
Variable T : TEL.trace A.
Notation tf := (tf A).
Fixpoint embf (f : bf A) : tf :=
  match f with
  | At _ a => TAt A a
  | Cst _ b => if b then LTop A else TBot A
  | Neg _ x => LNot A (embf x)
  | Bin _ op x y => match op with
                    | OpAnd => TAnd A (embf x) (embf y) | OpOr => TOr A (embf x) (embf y)
                    | OpRImp => TImp A (embf x) (embf y) | OpLImp => TImp A (embf y) (embf x)
                    | OpEqv => TAnd A (TImp A (embf x) (embf y)) (TImp A (embf y) (embf x)) end
  | Pv _ n w x => TPv A w n (embf x)
  | Ini _ x => LInitially A (embf x)
  | Nx _ n w x => TNx A w n (embf x)
  | TN2 _ u l r => if u then TUn A (embf l) (embf r) else TRl A (embf l) (embf r)
  | TN1 _ u r => if u then TUn A (LTop A) (embf r) else TRl A (TBot A) (embf r)
  | TP2 _ u l r => if u then TSi A (embf l) (embf r) else TTr A (embf l) (embf r)
  | TP1 _ u r => if u then TSi A (LTop A) (embf r) else TTr A (TBot A) (embf r)
  | Dia _ _ _ | Box _ _ _ => TBot A                 (* &del formulas have no counterpart in the temporal specification language (they have LDL.ds) *)
  end.
Fixpoint tel_only (f : bf A) : bool :=
  match f with
  | At _ _ | Cst _ _ => true
  | Neg _ x | Pv _ _ _ x | Ini _ x | Nx _ _ _ x | TN1 _ _ x | TP1 _ _ x => tel_only x
  | Bin _ _ x y | TN2 _ _ x y | TP2 _ _ x y => tel_only x && tel_only y
  | Dia _ _ _ | Box _ _ _ => false
  end.
Lemma fut_ext2 u sx sy sx' sy' d k : (forall j, sx j = sx' j) -> (forall j, sy j = sy' j) -> fut u sx sy d k = fut u sx' sy' d k.
Proof. intros Ex Ey. revert k. induction d as [|d IH]; intros k; cbn [fut]; [apply Ey|]. now rewrite Ex, Ey, IH. Qed.
Lemma pst_ext2 u sx sy sx' sy' k : (forall j, sx j = sx' j) -> (forall j, sy j = sy' j) -> pst u sx sy k = pst u sx' sy' k.
Proof. intros Ex Ey. induction k as [|k IH]; cbn [pst]; [apply Ey|]. now rewrite Ex, Ey, IH. Qed.
Lemma lsat_initially_tf (r : tf) k : TEL.lsat A h T (LInitially A r) k = TEL.lsat A h T r 0.
Proof. rewrite <- !(tsat_total A h T). apply law_initially. Qed.
Theorem lsat_embf : forall f, tel_only f = true -> forall k, BodyTheoryFull.lsat A h T f k = TEL.lsat A h T (embf f) k.
Proof.
  induction f as [a|b|x IH|op x IHx y IHy|n w x IH|x IH|n w x IH|u l IHl r IHr|u r IHr|u l IHl r IHr|u r IHr|p g IHg|p g IHg]; intros To k; cbn [tel_only] in To; try discriminate;
    try (apply andb_true_iff in To as [To1 To2]); try specialize (IH To); try specialize (IHx To1); try specialize (IHy To2); try specialize (IHl To1); try specialize (IHr To2); try specialize (IHr To);
    cbn [BodyTheoryFull.lsat embf].
  - reflexivity.
  - now destruct b.
  - rewrite IH. unfold LNot. cbn [TEL.lsat]. now destruct (TEL.lsat A h T (embf x) k).
  - rewrite IHx, IHy. destruct op; cbn [bool_spec TEL.lsat]; destruct (TEL.lsat A h T (embf x) k), (TEL.lsat A h T (embf y) k); reflexivity.
  - cbn [TEL.lsat]. destruct (n <=? k); [apply IH|reflexivity].
  - rewrite lsat_initially_tf. apply IH.
  - cbn [TEL.lsat]. destruct (k + n <=? h); [apply IH|reflexivity].
  - destruct u; cbn [TEL.lsat]; apply fut_ext2; auto.
  - destruct u; cbn [TEL.lsat]; apply fut_ext2; auto.
  - destruct u; cbn [TEL.lsat]; apply pst_ext2; auto.
  - destruct u; cbn [TEL.lsat]; apply pst_ext2; auto.
Qed.
End Link.
(* the objects built through the regenerated create_formula table *)
Section Built.
Variable h : nat.
Variable T : TEL.trace nat.
Variable ini fin : nat.
Hypothesis Mi : forall k, T k ini = (k =? 0).
Hypothesis Mf : forall k, T k fin = (k =? h).
Notation lsatn := (BodyTheoryFull.lsat nat h T).
Theorem den_sem : forall e L R n b, den ini fin e L R n = Some b -> forall k, lsatn b k = fval h e (lsatn L) (lsatn R) n k.
Proof.
  fix IH 1. intros e L R n b D k. destruct e as [| |a c w|a c w|op a b0|a|op lhs rhs|op lhs rhs fw|a|name|b0|a b0]; cbn [den] in D.
  - now inversion D.
  - now inversion D.
  - destruct (den ini fin a L R n) as [x|] eqn:Da; [|discriminate]. inversion D; subst b. cbn [BodyTheoryFull.lsat fval]. destruct (cntv c n <=? k); [now apply IH|reflexivity].
  - destruct (den ini fin a L R n) as [x|] eqn:Da; [|discriminate]. inversion D; subst b. cbn [BodyTheoryFull.lsat fval]. destruct (k + cntv c n <=? h); [now apply IH|reflexivity].
  - destruct (den ini fin a L R n) as [x|] eqn:Da; [|discriminate]. destruct (den ini fin b0 L R n) as [y|] eqn:Db; [|discriminate]. inversion D; subst b.
    cbn [BodyTheoryFull.lsat fval]. now rewrite (IH a L R n x Da k), (IH b0 L R n y Db k).
  - destruct (den ini fin a L R n) as [x|] eqn:Da; [|discriminate]. inversion D; subst b. cbn [BodyTheoryFull.lsat fval]. now rewrite (IH a L R n x Da k).
  - destruct op; try discriminate; destruct (den ini fin rhs L R n) as [r|] eqn:Dr; try discriminate; destruct lhs as [l|].
    + destruct (den ini fin l L R n) as [x|] eqn:Dl; [|discriminate]. inversion D; subst b. cbn [BodyTheoryFull.lsat fval]. apply pst_ext2; intros j; [now apply IH|now apply IH].
    + inversion D; subst b. cbn [BodyTheoryFull.lsat fval]. apply pst_ext2; intros j; [reflexivity|now apply IH].
    + destruct (den ini fin l L R n) as [x|] eqn:Dl; [|discriminate]. inversion D; subst b. cbn [BodyTheoryFull.lsat fval]. apply pst_ext2; intros j; [now apply IH|now apply IH].
    + inversion D; subst b. cbn [BodyTheoryFull.lsat fval]. apply pst_ext2; intros j; [reflexivity|now apply IH].
  - destruct op; try discriminate; destruct (den ini fin rhs L R n) as [r|] eqn:Dr; try discriminate; destruct fw; cbn [negb Bool.eqb] in D; try discriminate; destruct lhs as [l|].
    + destruct (den ini fin l L R n) as [x|] eqn:Dl; [|discriminate]. inversion D; subst b. cbn [BodyTheoryFull.lsat fval]. rewrite futw_until. apply fut_ext2; intros j; [now apply IH|now apply IH].
    + inversion D; subst b. cbn [BodyTheoryFull.lsat fval]. rewrite futw_until. apply fut_ext2; intros j; [reflexivity|now apply IH].
    + destruct (den ini fin l L R n) as [x|] eqn:Dl; [|discriminate]. inversion D; subst b. cbn [BodyTheoryFull.lsat fval]. rewrite futw_release. apply fut_ext2; intros j; [now apply IH|now apply IH].
    + inversion D; subst b. cbn [BodyTheoryFull.lsat fval]. rewrite futw_release. apply fut_ext2; intros j; [reflexivity|now apply IH].
  - destruct (den ini fin a L R n) as [x|] eqn:Da; [|discriminate]. inversion D; subst b. cbn [BodyTheoryFull.lsat fval]. now apply IH.
  - cbn [fval]. destruct (String.eqb name "__initial"); [inversion D; subst b; cbn [BodyTheoryFull.lsat]; apply Mi|].
    destruct (String.eqb name "__final"); [inversion D; subst b; cbn [BodyTheoryFull.lsat]; apply Mf|discriminate].
  - inversion D; subst b. reflexivity.
  - cbn [fval]. destruct (n =? 0); now apply IH.
Qed.
End Built.
