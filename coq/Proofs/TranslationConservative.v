(* C13 end to end for the translation model: in every state the model of Theory.translate reaches (Model/BodyTheoryFull.v, compared with the code event
   by event on every run), the auxiliary atoms it allocated - made choice atoms - together with the constraints it emitted and the values of its
   placeholders form a definitional extension: added to ANY program in which no auxiliary atom occurs they neither invent, lose nor duplicate an answer
   set.  Atoms of the combined program: the user atoms at their states (VU a k) and the numbered auxiliary atoms (VX n). *)
From Coq Require Import List Bool Arith Lia.
Import ListNotations.
Require Import HT DecP DefElim Ext Observer GenPrelude TheoryPrelude FromTheory Leaf_theory Leaf_dynamic.
Require BodyTheoryFull.
Module F := BodyTheoryFull.
Section TC.
Variable A : Type.
Variable D : forall a b : A, {a = b} + {a <> b}.
Notation var := (F.var A).
Notation form := (HT.form var).
Notation interp := (HT.interp var).
Variable h : nat.
Variable s : F.st A.
Hypothesis I : F.Inv A D h nil s.
Hypothesis G : F.Gw A D s.
Hypothesis W : F.Wf A D s.
Definition trace_of (J : interp) : F.trace A := fun k a => J (F.VU A a k).
Definition aux_of (J : interp) : nat -> bool := fun n => J (F.VX A n).
Definition isaux (x : var) : bool := match x with F.VU _ _ _ => false | F.VX _ n => n <? F.nxt A s end.
Definition Top : form := Imp _ (Bot _) (Bot _).
Definition litf (l : F.lit A) : form := if fst l then Var _ (snd l) else Not _ (Var _ (snd l)).
Fixpoint conjf (b : list (F.lit A)) : form := match b with [] => Top | l :: r => And _ (litf l) (conjf r) end.
Definition fixes (e : nat) (w : bool) : form := if w then Not _ (Var _ (F.VX A e)) else Var _ (F.VX A e).    (* the constraint that forces VX e = w *)
(* what the translation contributes: one constraint per emitted clause, the false literal 0, the value of every pending placeholder *)
Definition emitted (c : form) : Prop :=
  (exists b, In b (F.cls A s) /\ c = conjf b) \/ c = Var _ (F.VX A 0) \/ (exists e w, F.is_placeholder A D s e w /\ c = fixes e w).
Lemma csat_litf J l : csat _ J (litf l) = F.ev A (trace_of J) (aux_of J) l.
Proof. destruct l as [[|] [a k|n]]; reflexivity. Qed.
Lemma csat_conj J b : csat _ J (conjf b) = forallb (F.ev A (trace_of J) (aux_of J)) b.
Proof. induction b as [|l r IH]; cbn [conjf forallb csat]; [reflexivity|]. now rewrite csat_litf, IH. Qed.
Lemma okC_iff J : okCP var emitted J <-> F.ok_cls A (trace_of J) (aux_of J) s /\ F.ok_ext A D (aux_of J) s.
Proof.
  unfold okCP, emitted. split.
  - intros Ok. split; [|split].
    + intros b Hb. rewrite <- csat_conj. apply Ok. left. eauto.
    + apply (Ok (Var _ (F.VX A 0))). right. now left.
    + intros e w Hp. assert (csat _ J (fixes e w) = false) as E by (apply Ok; right; right; eauto).
      unfold fixes in E. unfold aux_of. destruct w; cbn in E; destruct (J (F.VX A e)); (reflexivity || discriminate).
  - intros [Oc [O0 Oe]] c [[b [Hb ->]]|[->|[e [w [Hp ->]]]]].
    + rewrite csat_conj. now apply Oc.
    + exact O0.
    + specialize (Oe e w Hp). unfold aux_of in Oe. unfold fixes. destruct w; cbn; rewrite Oe; reflexivity.
Qed.
Lemma forallb_ext {X} (p q : X -> bool) l : (forall x, p x = q x) -> forallb p l = forallb q l.
Proof. intros E. induction l as [|x l IH]; cbn; [reflexivity|]. now rewrite E, IH. Qed.
Lemma ok_cls_ext T T' v : (forall k a, T k a = T' k a) -> F.ok_cls A T v s -> F.ok_cls A T' v s.
Proof.
  intros ET Oc b Hb. rewrite <- (Oc b Hb). apply forallb_ext. intros [sg [a k|n]]; unfold F.ev; cbn [fst snd]; [now rewrite ET|reflexivity].
Qed.
(* the program: any theory in which no numbered atom occurs *)
Definition isvx (x : var) : bool := match x with F.VU _ _ _ => false | F.VX _ _ => true end.
Variable P : theory var.
Hypothesis P_clean : forall f, P f -> clean var isvx f.
Lemma clean_mono f : clean var isvx f -> clean var isaux f.
Proof. induction f as [|x|f1 IH1 f2 IH2|f1 IH1 f2 IH2|f1 IH1 f2 IH2]; cbn; try tauto. destruct x; cbn; [reflexivity|discriminate]. Qed.
Lemma P_clean_aux f : P f -> clean var isaux f.  Proof. intros Hf. apply clean_mono, P_clean, Hf. Qed.
Definition translated : theory var := extendedP var isaux P emitted.
(* (1) none is invented *)
Theorem translation_invents_no_answer_set (T : interp) : equilibriumP var T translated -> equilibriumP var (user var isaux T) P.
Proof. exact (observers_projectP var isaux P emitted P_clean_aux T). Qed.
(* an answer set of the program contains no numbered atom *)
Lemma no_vx_in_answer_sets (U : interp) : equilibriumP var U P -> forall n, U (F.VX A n) = false.
Proof.
  intros [M Min] n. destruct (U (F.VX A n)) eqn:E; [exfalso|reflexivity].
  set (H := fun x : var => match x with F.VX _ m => if m =? n then false else U x | _ => U x end).
  apply (Min H).
  - split.
    + intros x. unfold H. destruct x as [a k|m]; [auto|]. destruct (m =? n); [discriminate|auto].
    + exists (F.VX A n). split; [exact E|]. unfold H. now rewrite Nat.eqb_refl.
  - intros f Hf. rewrite (hsat_clean var isvx H U U U f (P_clean f Hf)); [now apply M| |intros x _; reflexivity].
    intros x Ex. unfold H. destruct x as [a k|m]; [reflexivity|discriminate].
Qed.
(* (2) none is lost *)
Theorem translation_loses_no_answer_set (U : interp) : equilibriumP var U P ->
  exists T, agree_clean var isaux T U /\ equilibriumP var T translated.
Proof.
  intros EU. apply (observers_liftP var isaux P emitted P_clean_aux U); [|exact EU].
  set (vs := F.vstar A h (trace_of U) s).
  exists (fun x => match x with F.VU _ _ _ => U x | F.VX _ n => vs n end). split.
  - intros [a k|n] E; [reflexivity|]. cbn in E. apply Nat.ltb_ge in E. rewrite (no_vx_in_answer_sets U EU n).
    unfold vs, F.vstar. destruct (F.owner_of A s n) as [[f k]|] eqn:O; [exfalso|reflexivity].
    unfold F.owner_of in O. destruct (find (F.is_new A n) (F.log A s)) as [e|] eqn:Fd; [|discriminate].
    apply find_some in Fd as [Ie Ne]. destruct e as [z kd key| |]; try discriminate. cbn in Ne. apply Nat.eqb_eq in Ne. subst z.
    pose proof (F.g_bound A D s G n kd key Ie). lia.
  - apply okC_iff. exact (F.exists_full A D boolean_clauses_spec tel_clauses_spec make_equal_spec (reduce_eqs_hold A) h s I G W (trace_of U)).
Qed.
(* (3) none is duplicated *)
Theorem translation_duplicates_no_answer_set (T T' : interp) :
  equilibriumP var T translated -> equilibriumP var T' translated -> agree_clean var isaux T T' -> forall x, T x = T' x.
Proof.
  apply (observers_no_duplicatesP var isaux P emitted). intros [a k|n] E Ok Ok' Ag; [discriminate|]. cbn in E. apply Nat.ltb_lt in E.
  apply okC_iff in Ok as [Oc Oe]. apply okC_iff in Ok' as [Oc' Oe'].
  destruct n as [|n].
  - destruct Oe as [O0 _], Oe' as [O0' _]. unfold aux_of in O0, O0'. now rewrite O0, O0'.
  - assert (forall k a, trace_of T' k a = trace_of T k a) as ET by (intros k a; unfold trace_of; symmetry; now apply Ag).
    pose proof (F.unique_full A D (reduce_eqs_hold A) h s I G W (trace_of T) (aux_of T) Oc Oe (S n) (conj (Nat.lt_0_succ n) E)) as V1.
    pose proof (F.unique_full A D (reduce_eqs_hold A) h s I G W (trace_of T) (aux_of T') (ok_cls_ext _ _ _ ET Oc') Oe' (S n) (conj (Nat.lt_0_succ n) E)) as V2.
    unfold aux_of in V1, V2. now rewrite V1, V2.
Qed.
End TC.
