(* The clause groups and guards REGENERATED from theory/body.py determine the LTLf value of every body formula, for the
   FULL operator set (Boolean connectives, n-fold weak/strong previous and next, since/trigger, until/release):
   whatever values an assignment gives to the literals, if it violates none of the constraints emitted per node
   (read at horizon h, i.e. after the pending placeholders inside the horizon have been resolved), every literal has
   the LTLf value of its formula at its state. *)
Require Import GenPrelude TheoryPrelude FromTheory HT TEL Leaf_theory.
Section FullOps.
Variable A : Type.
Variable h : nat.
Variable T : trace A.
Notation tf := (tf A).
Notation lsat := (lsat A h T).
(* v phi k = value of the literal that stands for formula phi at state k *)
Variable v : tf -> nat -> bool.
Definition asg (lit lhs rhs pre : bool) : lvar -> bool :=
  fun x => match x with Llit => lit | Llhs => lhs | Lrhs => rhs | Lpre => pre | La => lit | Lb => rhs end.
Definition node_ok (p : tf) (k : nat) : Prop :=
  match p with
  | TBot _ => v p k = false                                        (* the false literal *)
  | TAt _ a => v p k = T k a                                         (* the literal of the symbolic atom; false if absent *)
  | TAt0 _ a => v p k = T 0 a
  | TAnd _ a b => holds (asg (v p k) (v a k) (v b k) false) (boolean_clauses_gen OpAnd) = true
  | TOr _ a b => holds (asg (v p k) (v a k) (v b k) false) (boolean_clauses_gen OpOr) = true
  | TImp _ a b => holds (asg (v p k) (v a k) (v b k) false) (boolean_clauses_gen OpRImp) = true
  | TPv _ w n x =>
      match prev_inside_gen k n, prev_target_gen k n, prev_boundary_true_gen k n w with
      | Some true, Some t, _ => v p k = v x (Z.to_nat t)             (* the literal of the argument at state k-n is reused *)
      | Some false, _, Some b => v p k = b                           (* true / false literal at the boundary *)
      | _, _, _ => False
      end
  | TNx _ w n x =>
      match next_inside_gen k n h, next_target_gen k n with
      | Some true, Some t => v p k = v x (Z.to_nat t)                (* alias, or placeholder equated by make_equal and freed *)
      | Some false, _ => v p k = next_placeholder_value_gen w        (* unresolved placeholder: external with the boundary value *)
      | _, _ => False
      end
  | TUn _ a b => holds (asg (v p k) (v a k) (v b k) (v (TNx A until_future_weak_gen 1 p) k)) (tel_clauses_gen OpUntil true) = true
  | TRl _ a b => holds (asg (v p k) (v a k) (v b k) (v (TNx A release_future_weak_gen 1 p) k)) (tel_clauses_gen OpRelease true) = true
  | TSi _ a b =>
      match telp_base_gen k, telp_pre_gen k with
      | Some true, _ => v p k = v b k
      | Some false, Some q => holds (asg (v p k) (v a k) (v b k) (v p (Z.to_nat q))) (tel_clauses_gen OpSince true) = true
      | _, _ => False
      end
  | TTr _ a b =>
      match telp_base_gen k, telp_pre_gen k with
      | Some true, _ => v p k = v b k
      | Some false, Some q => holds (asg (v p k) (v a k) (v b k) (v p (Z.to_nat q))) (tel_clauses_gen OpTrigger true) = true
      | _, _ => False
      end
  end.
Hypothesis Ok : forall p k, k <= h -> node_ok p k.
Lemma eqb_true a b : Bool.eqb a b = true -> a = b.  Proof. destruct a, b; cbn; congruence. Qed.
Lemma bool_node op p a b k : holds (asg (v p k) (v a k) (v b k) false) (boolean_clauses_gen op) = true -> v p k = bool_spec op (v a k) (v b k).
Proof. rewrite boolean_clauses_spec. cbn [asg]. apply eqb_true. Qed.
Lemma tel_node op p a b pre k : holds (asg (v p k) (v a k) (v b k) pre) (tel_clauses_gen op true) = true -> v p k = tel_spec op true (v a k) (v b k) pre.
Proof. rewrite tel_clauses_spec. cbn [asg]. apply eqb_true. Qed.
(* future operators: induction on the distance to the end of the trace inside the induction on the formula *)
Theorem full_ops_value : forall p k, k <= h -> v p k = lsat p k.
Proof.
  induction p as [|a|a|x IHx y IHy|x IHx y IHy|x IHx y IHy|w n x IH|w n x IH|x IHx y IHy|x IHx y IHy|x IHx y IHy|x IHx y IHy]; intros k Hk;
    match goal with |- v ?p k = _ => pose proof (Ok p k Hk) as N end; cbn [node_ok] in N.
  - exact N.
  - exact N.
  - exact N.
  - rewrite (bool_node OpAnd _ _ _ _ N), (IHx k Hk), (IHy k Hk). reflexivity.
  - rewrite (bool_node OpOr _ _ _ _ N), (IHx k Hk), (IHy k Hk). reflexivity.
  - rewrite (bool_node OpRImp _ _ _ _ N), (IHx k Hk), (IHy k Hk). cbn [TEL.lsat bool_spec]. destruct (lsat x k), (lsat y k); reflexivity.
  - rewrite (next_case A h T w n x k). destruct (next_guards_spec k n h) as (E1 & E2). rewrite E1, E2 in *.
    destruct (k + n <=? h) eqn:L; [|exact N]. rewrite N. apply IH. apply Nat.leb_le in L. lia.
  - rewrite (previous_case A h T w n x k). destruct (prev_guards_spec k n w) as (E1 & E2 & E3). rewrite E1, E2, E3 in *.
    destruct (n <=? k) eqn:L; [|exact N]. rewrite N. apply IH. lia.
  - (* until: by induction on h - k *)
    remember (h - k) as d eqn:Hd. revert k Hk N Hd. induction d as [|d IHd]; intros k Hk N Hd.
    + assert (k = h) as -> by lia. rewrite (until_release_case A h T true x y h (le_n h)).
      rewrite (tel_node OpUntil _ _ _ _ _ N), (IHx h Hk), (IHy h Hk). f_equal.
      pose proof (Ok (TNx A until_future_weak_gen 1 (TUn A x y)) h Hk) as Nn. cbn [node_ok] in Nn.
      rewrite (next_case A h T until_future_weak_gen 1 (TUn A x y) h).
      destruct (next_guards_spec h 1 h) as (E1 & E2). rewrite E1, E2 in *.
      assert (h + 1 <=? h = false) as L by (apply Nat.leb_gt; lia). rewrite L in *. exact Nn.
    + rewrite (until_release_case A h T true x y k Hk).
      rewrite (tel_node OpUntil _ _ _ _ _ N), (IHx k Hk), (IHy k Hk). f_equal.
      pose proof (Ok (TNx A until_future_weak_gen 1 (TUn A x y)) k Hk) as Nn. cbn [node_ok] in Nn.
      rewrite (next_case A h T until_future_weak_gen 1 (TUn A x y) k).
      destruct (next_guards_spec k 1 h) as (E1 & E2). rewrite E1, E2 in *.
      assert (k + 1 <=? h = true) as L by (apply Nat.leb_le; lia). rewrite L in *. rewrite Nn.
      replace (Z.to_nat (Z.of_nat k + Z.of_nat 1)) with (k + 1) by lia.
      apply IHd; [lia|exact (Ok (TUn A x y) (k + 1) ltac:(lia))|lia].
  - remember (h - k) as d eqn:Hd. revert k Hk N Hd. induction d as [|d IHd]; intros k Hk N Hd.
    + assert (k = h) as -> by lia. rewrite (until_release_case A h T false x y h (le_n h)).
      rewrite (tel_node OpRelease _ _ _ _ _ N), (IHx h Hk), (IHy h Hk). f_equal.
      pose proof (Ok (TNx A release_future_weak_gen 1 (TRl A x y)) h Hk) as Nn. cbn [node_ok] in Nn.
      rewrite (next_case A h T release_future_weak_gen 1 (TRl A x y) h).
      destruct (next_guards_spec h 1 h) as (E1 & E2). rewrite E1, E2 in *.
      assert (h + 1 <=? h = false) as L by (apply Nat.leb_gt; lia). rewrite L in *. exact Nn.
    + rewrite (until_release_case A h T false x y k Hk).
      rewrite (tel_node OpRelease _ _ _ _ _ N), (IHx k Hk), (IHy k Hk). f_equal.
      pose proof (Ok (TNx A release_future_weak_gen 1 (TRl A x y)) k Hk) as Nn. cbn [node_ok] in Nn.
      rewrite (next_case A h T release_future_weak_gen 1 (TRl A x y) k).
      destruct (next_guards_spec k 1 h) as (E1 & E2). rewrite E1, E2 in *.
      assert (k + 1 <=? h = true) as L by (apply Nat.leb_le; lia). rewrite L in *. rewrite Nn.
      replace (Z.to_nat (Z.of_nat k + Z.of_nat 1)) with (k + 1) by lia.
      apply IHd; [lia|exact (Ok (TRl A x y) (k + 1) ltac:(lia))|lia].
  - (* since: by induction on k *)
    revert Hk N. induction k as [|k IHk]; intros Hk N.
    + rewrite (since_trigger_case A h T true x y 0). destruct (telp_guards_spec 0) as (E1 & E2). rewrite E1, E2 in *. cbn [Nat.eqb] in *.
      rewrite N. apply IHy. exact Hk.
    + rewrite (since_trigger_case A h T true x y (S k)). destruct (telp_guards_spec (S k)) as (E1 & E2). rewrite E1, E2 in *. cbn [Nat.eqb] in *.
      rewrite (tel_node OpSince _ _ _ _ _ N), (IHx _ Hk), (IHy _ Hk). f_equal.
      replace (Z.to_nat (Z.of_nat (S k) - 1)) with k by lia. apply IHk; [lia|exact (Ok (TSi A x y) k ltac:(lia))].
  - revert Hk N. induction k as [|k IHk]; intros Hk N.
    + rewrite (since_trigger_case A h T false x y 0). destruct (telp_guards_spec 0) as (E1 & E2). rewrite E1, E2 in *. cbn [Nat.eqb] in *.
      rewrite N. apply IHy. exact Hk.
    + rewrite (since_trigger_case A h T false x y (S k)). destruct (telp_guards_spec (S k)) as (E1 & E2). rewrite E1, E2 in *. cbn [Nat.eqb] in *.
      rewrite (tel_node OpTrigger _ _ _ _ _ N), (IHx _ Hk), (IHy _ Hk). f_equal.
      replace (Z.to_nat (Z.of_nat (S k) - 1)) with k by lia. apply IHk; [lia|exact (Ok (TTr A x y) k ltac:(lia))].
Qed.
End FullOps.
