(* Leaf lemmas about the clause tables and guards regenerated from telingo/theory/{formula,body}.py, and their reading
   as the per-state definitional equations of LTLf. *)
Require Import GenPrelude TheoryPrelude FromTheory HT TEL.
Require Export TheorySem.
Lemma tel_clauses_spec op has v : holds v (tel_clauses_gen op has) = Bool.eqb (v Llit) (tel_spec op has (v Llhs) (v Lrhs) (v Lpre)).
Proof. destruct op, has; unfold holds, tel_clauses_gen, tel_spec; cbn [forallb evl]; destruct (v Llit), (v Llhs), (v Lrhs), (v Lpre); reflexivity. Qed.
Lemma boolean_clauses_spec op v : holds v (boolean_clauses_gen op) = Bool.eqb (v Llit) (bool_spec op (v Llhs) (v Lrhs)).
Proof. destruct op; unfold holds, boolean_clauses_gen, bool_spec; cbn [forallb evl]; destruct (v Llit), (v Llhs), (v Lrhs); reflexivity. Qed.
Lemma make_equal_spec v : holds v make_equal_cl_gen = Bool.eqb (v La) (v Lb).
Proof. unfold holds, make_equal_cl_gen; cbn [forallb evl]; destruct (v La), (v Lb); reflexivity. Qed.
Lemma make_disjunction_spec v : holds v make_disjunction_cl_gen = Bool.eqb (v Llit) (v Llhs || v Lrhs).
Proof. unfold holds, make_disjunction_cl_gen; cbn [forallb evl]; destruct (v Llit), (v Llhs), (v Lrhs); reflexivity. Qed.
Lemma prev_guards_spec step n weak :
  prev_inside_gen step n = Some (n <=? step) /\ prev_target_gen step n = Some (Z.of_nat step - Z.of_nat n)%Z /\
  prev_boundary_true_gen step n weak = Some (weak && (step <? n)).
Proof. unfold prev_inside_gen, prev_target_gen, prev_boundary_true_gen. repeat split; destruct weak; pbool. Qed.
Lemma next_guards_spec step n horizon :
  next_inside_gen step n horizon = Some (step + n <=? horizon) /\ next_target_gen step n = Some (Z.of_nat step + Z.of_nat n)%Z.
Proof. unfold next_inside_gen, next_target_gen. split; pbool. Qed.
Lemma telp_guards_spec step : telp_base_gen step = Some (step =? 0) /\ telp_pre_gen step = Some (Z.of_nat step - 1)%Z.
Proof. unfold telp_base_gen, telp_pre_gen. split; pbool. Qed.
Section Equations.
Variable A : Type.
Variable h : nat.
Variable T : trace A.
Notation lsat := (lsat A h T).
(* the regenerated case analysis of Previous.do_translate is the LTLf reading of n-fold (weak) previous *)
Theorem previous_case w n x k :
  lsat (TPv A w n x) k =
  match prev_inside_gen k n, prev_target_gen k n, prev_boundary_true_gen k n w with
  | Some true, Some t, _ => lsat x (Z.to_nat t) | Some false, _, Some b => b | _, _, _ => false end.
Proof.
  destruct (prev_guards_spec k n w) as (-> & -> & ->). cbn [TEL.lsat]. destruct (Nat.leb_spec n k).
  - f_equal. lia.
  - assert (k <? n = true) as -> by (apply Nat.ltb_lt; lia). now rewrite andb_true_r.
Qed.
(* ... of Next.do_translate the LTLf reading of n-fold (weak) next, with the placeholder value as boundary value *)
Theorem next_case w n x k :
  lsat (TNx A w n x) k =
  match next_inside_gen k n h, next_target_gen k n with
  | Some true, Some t => lsat x (Z.to_nat t) | Some false, _ => next_placeholder_value_gen w | _, _ => false end.
Proof.
  destruct (next_guards_spec k n h) as (-> & ->). cbn [TEL.lsat]. destruct (k + n <=? h).
  - f_equal. lia.
  - destruct w; reflexivity.
Qed.
(* the clauses of TelFormula._translate with pre = the literal of the future formula `> self` (until) / `>: self`
   (release) are the one-step unfolding of until / release, at every state k <= h including the last one *)
Theorem until_release_case (u : bool) a b k : k <= h ->
  lsat (if u then TUn A a b else TRl A a b) k =
  tel_spec (if u then OpUntil else OpRelease) true (lsat a k) (lsat b k)
           (lsat (TNx A (if u then until_future_weak_gen else release_future_weak_gen) 1 (if u then TUn A a b else TRl A a b)) k).
Proof.
  intros Hk. destruct u; cbn [TEL.lsat tel_spec until_future_weak_gen release_future_weak_gen].
  - destruct (k + 1 <=? h) eqn:E.
    + apply Nat.leb_le in E. replace (h - k) with (S (h - (k + 1))) by lia. cbn [fut]. replace (S k) with (k + 1) by lia. reflexivity.
    + apply Nat.leb_gt in E. replace (h - k) with 0 by lia. cbn [fut]. now rewrite andb_false_r, orb_false_r.
  - destruct (k + 1 <=? h) eqn:E.
    + apply Nat.leb_le in E. replace (h - k) with (S (h - (k + 1))) by lia. cbn [fut]. replace (S k) with (k + 1) by lia. reflexivity.
    + apply Nat.leb_gt in E. replace (h - k) with 0 by lia. cbn [fut]. now rewrite orb_true_r, andb_true_r.
Qed.
(* ... and of TelFormulaP.do_translate (base case at state 0, inductive literal of state k-1) since / trigger *)
Theorem since_trigger_case (s : bool) a b k :
  lsat (if s then TSi A a b else TTr A a b) k =
  match telp_base_gen k, telp_pre_gen k with
  | Some true, _ => lsat b k
  | Some false, Some p => tel_spec (if s then OpSince else OpTrigger) true (lsat a k) (lsat b k) (lsat (if s then TSi A a b else TTr A a b) (Z.to_nat p))
  | _, _ => false end.
Proof.
  destruct (telp_guards_spec k) as (-> & ->). destruct k as [|k]; cbn [Nat.eqb].
  - destruct s; reflexivity.
  - replace (Z.to_nat (Z.of_nat (S k) - 1)) with k by lia. destruct s; cbn [TEL.lsat pst tel_spec]; reflexivity.
Qed.
(* Boolean connectives *)
Theorem boolean_case op a b k :
  lsat (match op with OpAnd => TAnd A a b | OpOr => TOr A a b | OpLImp => TImp A b a | OpRImp => TImp A a b
                    | OpEqv => TAnd A (TImp A a b) (TImp A b a) end) k = bool_spec op (lsat a k) (lsat b k).
Proof. destruct op; cbn [TEL.lsat bool_spec]; destruct (lsat a k), (lsat b k); reflexivity. Qed.
End Equations.
