(* Future heads, concretely.  The rewritten program of Model/FutTransform.v contains, for a normal rule whose head has n > 0 primes, the rule
   `__future_p(n, __t+n) :- body` in the part of the rule, one bridge rule `p(__t) :- __future_p(n, __t)` per future predicate, and the loop assumes
   every `__future_p(n, t')` with t' beyond the horizon false.  Instance of Spec/DefElim.v: the auxiliary atoms are the `__future_` atoms, the
   definitions of `__future_p(n, t')` are the ground bodies of the rules with that head at state t' - n (admissible for their part, inside the
   horizon), its use is p(t') inside the horizon and falsity beyond.  Eliminating the auxiliaries gives, in both directions, the program in which
   every such rule instance at state t derives p(t+n) directly when t+n <= h and forces its body to be false otherwise - the reading of C02.
   The grounding of rule bodies is a parameter (any function into formulas without auxiliary atoms; Proofs/FutTransformProofs.accepted_rule_shape
   shows that accepted bodies never mention them); the rest of the program is any theory G without auxiliary atoms.
   Idealisation: bridge rules and assumptions are taken for all auxiliary atoms, also those that occur in no rule instance (gringo does not
   produce those instances; an atom without a defining rule instance is false in every equilibrium model, so they cannot matter). *)
From Coq Require Import List Bool Arith ZArith Lia.
Require Import GenPrelude FromTransformers Ctx HT DecP DefElim CoreRun FutTransform.
Import ListNotations.
Section FH.
Variable A : Type.
Hypothesis A_eq_dec : forall a b : A, {a = b} + {a <> b}.
Notation gatom := (CoreRun.gatom A).
Inductive xatom := XG (g : gatom) | XF (a : A) (n : nat) (t : Z).           (* an atom of the program | __future_a(n, t) *)
Definition isx (x : xatom) : bool := match x with XF _ _ _ => true | XG _ => false end.
Notation xf := (form xatom).
Variable o : output A.
Variable h : nat.
Variable G : theory xatom.
Hypothesis G_clean : forall f, G f -> clean xatom isx f.
Variable Bg : list (fsgn * qatom A) -> nat -> xf.              (* ground body of a rewritten rule at state t *)
Hypothesis Bg_clean : forall bd t, clean xatom isx (Bg bd t).
Definition selected (r : oroot) (t : nat) : bool := match r with ORAlways => true | ORDynamic => 0 <? t | ORInitial => t =? 0 end.
Definition head_is (r : qrule A) (a : A) (n : nat) : bool :=
  match qh A r with
  | QHAtom _ (QFut _ b m (QRel z)) => (if A_eq_dec a b then true else false) && (n =? m) && (z =? Z.of_nat n)%Z
  | _ => false
  end.
(* the rule instances that define __future_a(n, t'): state t = t' - n, inside the horizon and admissible for the part of the rule *)
Definition defs (x : xatom) : list xf :=
  match x with
  | XF a n t' =>
      flat_map (fun e => let '(rt, r) := e in
                         if head_is r a n && (Z.of_nat n <=? t')%Z && (t' - Z.of_nat n <=? Z.of_nat h)%Z && selected rt (Z.to_nat (t' - Z.of_nat n))
                         then [Bg (qb A r) (Z.to_nat (t' - Z.of_nat n))] else []) (o_main A o)
  | XG _ => []
  end.
Definition use (x : xatom) : xf :=
  match x with
  | XF a n t' => if (t' <=? Z.of_nat h)%Z then Var _ (XG (CoreRun.GU A a t')) else Bot _
  | XG _ => Bot _
  end.
Lemma defs_clean : forall x B, isx x = true -> In B (defs x) -> clean xatom isx B.
Proof.
  intros [g|a n t'] B Ex I; [discriminate|]. cbn [defs] in I. apply in_flat_map in I as ((rt & r) & _ & I).
  destruct (head_is r a n && (Z.of_nat n <=? t')%Z && (t' - Z.of_nat n <=? Z.of_nat h)%Z && selected rt (Z.to_nat (t' - Z.of_nat n))); [|destruct I].
  destruct I as [<-|[]]. apply Bg_clean.
Qed.
Lemma use_clean : forall x, isx x = true -> clean xatom isx (use x).
Proof. intros [g|a n t'] Ex; [discriminate|]. cbn [use]. destruct (t' <=? Z.of_nat h)%Z; cbn; auto. Qed.
Definition program_with_future_atoms : theory xatom := with_aux xatom isx G defs use.
Definition program_without_future_atoms : theory xatom := without_aux xatom isx G defs use.
Lemma xatom_eq_dec : forall x y : xatom, {x = y} + {x <> y}.
Proof.
  assert (forall a b : gatom, {a = b} + {a <> b}) as Dg by (decide equality; try apply Z.eq_dec; apply A_eq_dec).
  decide equality; try apply Z.eq_dec; try apply Nat.eq_dec; apply A_eq_dec.
Qed.
(* both directions of the elimination *)
Theorem future_heads_elim_forward T : equilibriumP xatom T program_with_future_atoms ->
  canonical xatom isx defs T /\ equilibrium_clean xatom isx T program_without_future_atoms.
Proof. apply (elim_forward xatom isx G defs use G_clean defs_clean use_clean xatom_eq_dec). Qed.
Theorem future_heads_elim_backward T : canonical xatom isx defs T -> equilibrium_clean xatom isx T program_without_future_atoms ->
  equilibriumP xatom T program_with_future_atoms.
Proof. apply (elim_backward xatom isx G defs use defs_clean). Qed.
(* what the program without the auxiliaries says: every instance, at an admissible state t <= h, of a rule with head p^(n) derives p(t+n) when that
   state exists and forces its body to be false when it does not *)
Theorem program_without_future_atoms_spec f : program_without_future_atoms f <->
  G f \/ exists rt r a n t, In (rt, r) (o_main A o) /\ head_is r a n = true /\ t <= h /\ selected rt t = true /\
         f = Imp _ (Bg (qb A r) t) (if t + n <=? h then Var _ (XG (CoreRun.GU A a (Z.of_nat (t + n)))) else Bot _).
Proof.
  unfold program_without_future_atoms, without_aux. split.
  - intros [Gf|(x & B & Ex & IB & ->)]; [now left|right]. destruct x as [g|a n t']; [discriminate|]. cbn [defs] in IB. apply in_flat_map in IB as ((rt & r) & Ir & IB).
    destruct (head_is r a n) eqn:Hh; cbn [andb] in IB; [|destruct IB]. destruct (Z.of_nat n <=? t')%Z eqn:L1; cbn [andb] in IB; [|destruct IB].
    destruct (t' - Z.of_nat n <=? Z.of_nat h)%Z eqn:L2; cbn [andb] in IB; [|destruct IB]. destruct (selected rt (Z.to_nat (t' - Z.of_nat n))) eqn:Se; [|destruct IB].
    destruct IB as [<-|[]]. apply Z.leb_le in L1, L2. exists rt, r, a, n, (Z.to_nat (t' - Z.of_nat n)). split; [exact Ir|]. split; [exact Hh|]. split; [lia|]. split; [exact Se|].
    f_equal. cbn [use]. replace (Z.of_nat (Z.to_nat (t' - Z.of_nat n) + n)) with t' by lia.
    destruct (Z.leb_spec t' (Z.of_nat h)), (Nat.leb_spec (Z.to_nat (t' - Z.of_nat n) + n) h); try reflexivity; lia.
  - intros [Gf|(rt & r & a & n & t & Ir & Hh & Ht & Se & ->)]; [now left|right]. exists (XF a n (Z.of_nat (t + n))), (Bg (qb A r) t). split; [reflexivity|]. split.
    + cbn [defs]. apply in_flat_map. exists (rt, r). split; [exact Ir|]. replace (Z.of_nat (t + n) - Z.of_nat n)%Z with (Z.of_nat t) by lia. rewrite Nat2Z.id, Hh, Se.
      assert ((Z.of_nat n <=? Z.of_nat (t + n))%Z = true) as -> by (apply Z.leb_le; lia). assert ((Z.of_nat t <=? Z.of_nat h)%Z = true) as -> by (apply Z.leb_le; lia). now left.
    + f_equal. cbn [use]. destruct (Z.leb_spec (Z.of_nat (t + n)) (Z.of_nat h)), (Nat.leb_spec (t + n) h); try reflexivity; lia.
Qed.
End FH.
