(* C17 on the implementation side: for past-only core programs the stable models of the incremental run at horizon h+1,
   cut to their first h+1 states, are stable models of the run at horizon h.  Composition of the specification-level
   prefix theorem (Spec/PrefixSpec.v) with the exactness of the run (Model/CoreRun.v). *)
From Coq Require Import List Bool Arith ZArith Lia.
Require Import HT TEL TELext DecP PrefixSpec CoreRun.
Section PrefixImpl.
Variable A : Type.
(* past-only core rules: no final part, no &final in the body *)
Definition past_rule (r : srule A) : bool :=
  match sp A r with Final => false | _ => true end &&
  forallb (fun l : CoreRun.sgn * batom A => match snd l with BKwF _ => false | _ => true end) (sb A r).
Definition conv_part (p : spart) : PrefixSpec.part := match p with CoreRun.Initial => PrefixSpec.Initial | CoreRun.Always => PrefixSpec.Always | _ => PrefixSpec.Dynamic end.
Definition conv (r : srule A) : PrefixSpec.rule A := {| rp := conv_part (sp A r); rb := body_tf A (sb A r); rh := head_tf A (sh A r) |}.
Lemma body_past b : forallb (fun l : CoreRun.sgn * batom A => match snd l with BKwF _ => false | _ => true end) b = true -> past_only A (body_tf A b) = true.
Proof.
  induction b as [|[s x] r IH]; intros Hb; [reflexivity|]. cbn [forallb snd] in Hb. apply andb_true_iff in Hb as [Hx Hr].
  cbn [body_tf past_only]. rewrite (IH Hr), andb_true_r.
  assert (past_only A (batom_tf A x) = true) as Px by (destruct x as [a [|n]|a| |]; try reflexivity; discriminate Hx).
  destruct s; cbn [sgn_tf TNot past_only]; rewrite Px; reflexivity.
Qed.
Lemma head_present hd : present_only A (head_tf A hd) = true.
Proof.
  destruct hd as [a|l|l|]; cbn [head_tf]; try reflexivity.
  - induction l as [|a r IH]; [reflexivity|]. cbn [disj_tf present_only]. now rewrite IH.
  - induction l as [|a r IH]; [reflexivity|]. cbn [choice_tf present_only TNot]. now rewrite IH.
Qed.
Lemma conv_wf r : past_rule r = true -> wf A (conv r).
Proof. intros Hr. apply andb_true_iff in Hr as [_ Hb]. split; [now apply body_past|apply head_present]. Qed.
Variable P : list (srule A).
Hypothesis Past : forall r, In r P -> past_rule r = true.
Lemma adm_conv h r k : In r P -> CoreRun.admissible h (sp A r) k = PrefixSpec.admissible (conv_part (sp A r)) k.
Proof. intros Hr. pose proof (Past r Hr) as Pr. apply andb_true_iff in Pr as [Pp _]. destruct (sp A r); try discriminate Pp; reflexivity. Qed.
Lemma tmodel_conv h H T : CoreRun.tmodel A h P H T <-> PrefixSpec.tmodel A (map conv P) h H T.
Proof.
  unfold CoreRun.tmodel, PrefixSpec.tmodel. split.
  - intros M r' k Hr' Hk Adm. apply in_map_iff in Hr' as (r & <- & Hr). apply (M r k Hr Hk). rewrite (adm_conv h r k Hr). exact Adm.
  - intros M r k Hr Hk Adm. apply (M (conv r) k (in_map conv _ _ Hr) Hk). change (PrefixSpec.admissible (conv_part (sp A r)) k = true). now rewrite <- (adm_conv h r k Hr).
Qed.
Lemma tsm_conv h T : CoreRun.tsm A h P T <-> PrefixSpec.tsm A (map conv P) h T.
Proof.
  unfold CoreRun.tsm, PrefixSpec.tsm. rewrite tmodel_conv. apply and_iff_compat_l. split; intros Min H S MH.
  - apply (Min H); [exact S|now apply tmodel_conv].
  - apply (Min H); [exact S|now apply tmodel_conv].
Qed.
Lemma conv_all_wf : forall r', In r' (map conv P) -> wf A r'.
Proof. intros r' Hr'. apply in_map_iff in Hr' as (r & <- & Hr). apply conv_wf. now apply Past. Qed.
(* temporal stable models only depend on the states 0..h *)
Lemma tmodel_ext h H H' T T' : (forall k a, k <= h -> H k a = H' k a) -> (forall k a, k <= h -> T k a = T' k a) -> CoreRun.tmodel A h P H T -> CoreRun.tmodel A h P H' T'.
Proof. intros EH ET M r k Hr Hk Adm. rewrite <- (tsat_ext A h H T H' T' EH ET) by exact Hk. now apply M. Qed.
Lemma tsm_ext h T T' : (forall k a, k <= h -> T k a = T' k a) -> CoreRun.tsm A h P T -> CoreRun.tsm A h P T'.
Proof.
  intros E [M Min]. split; [now apply (tmodel_ext h T T' T T')|].
  intros H [Hle (k & a & Hk & Ht & Hh)] MH. apply (Min H).
  - split; [intros j b Hj Hb; rewrite (E j b Hj); now apply Hle|]. exists k, a. split; [exact Hk|]. split; [now rewrite (E k a Hk)|exact Hh].
  - apply (tmodel_ext h H H T' T); [reflexivity|intros j b Hj; symmetry; now apply E|exact MH].
Qed.
Theorem prefix_impl h (T' : interp (gatom A)) :
  equilibriumP _ T' (union _ (prog A (S h) P) (aux_theory _ (dec A (S h)))) ->
  exists T0 : interp (gatom A), equilibriumP _ T0 (union _ (prog A h P) (aux_theory _ (dec A h))) /\
                                forall k a, k <= h -> tr A T0 k a = tr A T' k a.
Proof.
  intros St. apply (C01_reduced A (S h) P T') in St as [_ Tsm].
  exists (lift A h (tr A T')). split.
  - apply (C01_reduced A h P). split; [apply lift_agrees|].
    apply (tsm_ext h (tr A T')); [intros k a Hk; symmetry; now apply tr_lift|].
    apply tsm_conv. apply (C17_spec A (map conv P) conv_all_wf). now apply tsm_conv.
  - intros k a Hk. now apply tr_lift.
Qed.
End PrefixImpl.
