(* The entries of the domain rule (Model/HeadDomain.v: ranges merged per atom by IntervalSet) cover every atom a shifted head formula can have in a
   rule head, at its distance from the state the formula was introduced at. *)
From Coq Require Import List Bool Arith ZArith Lia.
Require Import GenPrelude TheoryPrelude FormPrelude FromHeadRanges HeadShift HeadRanges RangesCover IntervalSet IntervalProofs HeadDomain.
Import ListNotations.
Section Cover.
Variable A : Type.
Variable eqA : A -> A -> bool.
Hypothesis eqA_spec : forall a b, eqA a b = true <-> a = b.
Lemma eqA_refl a : eqA a a = true.  Proof. now apply eqA_spec. Qed.
Lemma nodup_by_in {X} (eq : X -> X -> bool) (Heq : forall a b, eq a b = true <-> a = b) : forall l x, In x l -> In x (nodup_by eq l).
Proof.
  induction l as [|y l IH]; intros x I; [destruct I|]. cbn [nodup_by]. destruct (existsb (eq y) l) eqn:E.
  - destruct I as [<-|I]; [|now apply IH]. apply existsb_exists in E as (z & Iz & Ez). apply Heq in Ez. subst z. now apply IH.
  - destruct I as [<-|I]; [now left|right; now apply IH].
Qed.
Lemma maxb_bound rs : forall a lo hi, In (a, (lo, hi)) rs -> (Z.of_nat lo <= maxb A rs)%Z /\ match hi with Some h => (Z.of_nat h <= maxb A rs)%Z | None => True end.
Proof.
  induction rs as [|e rs IH]; intros a lo hi I; [destruct I|]. cbn [maxb fold_right]. fold (maxb A rs). destruct I as [->|I].
  - cbn [fst snd]. destruct hi; split; try exact Logic.I; lia.
  - destruct (IH a lo hi I) as [H1 H2]. split; [lia|]. destruct hi; [lia|exact Logic.I].
Qed.
Lemma ivs_in rs a lo hi : In (a, (lo, hi)) rs ->
  In (Z.of_nat lo, match hi with Some h => (Z.of_nat h + 1)%Z | None => big A rs end) (ivs_of A eqA rs a).
Proof. intros I. unfold ivs_of. apply in_flat_map. exists (a, (lo, hi)). split; [exact I|]. cbn [fst snd]. rewrite eqA_refl. now left. Qed.
Theorem entries_cover rs a r d : In (a, r) rs -> within d r -> exists e, In e (entries_of A eqA rs) /\ fst e = a /\ covers A d e.
Proof.
  intros I [Wl Wh]. destruct r as [lo hi]. cbn [fst snd] in Wl, Wh. pose proof (ivs_in rs a lo hi I) as B. destruct (maxb_bound rs a lo hi I) as [M1 M2].
  destruct (of_list_ok (ivs_of A eqA rs a)) as [_ M].
  (* a point of the range that lies below `big`: d itself, or big - 1 when d is beyond *)
  set (z := if (Z.of_nat d <? big A rs)%Z then Z.of_nat d else (big A rs - 1)%Z).
  assert (mem z (of_list (ivs_of A eqA rs a)) = true) as Mz.
  { rewrite M. apply existsb_exists. eexists. split; [exact B|]. unfold inb, z, big in *. cbn [fst snd].
    destruct (Z.ltb_spec (Z.of_nat d) (maxb A rs + 2)); apply andb_true_iff; split; try apply Z.leb_le; try apply Z.ltb_lt; destruct hi as [h|]; try lia. }
  unfold mem in Mz. apply existsb_exists in Mz as (i & Ii & Hi). unfold inb in Hi. apply andb_true_iff in Hi as [H1 H2]. apply Z.leb_le in H1. apply Z.ltb_lt in H2.
  exists (a, (fst i, if (big A rs <=? snd i)%Z then None else Some (snd i - 1)%Z)). split; [|split; [reflexivity|]].
  - unfold entries_of. apply in_flat_map. exists a. split.
    + apply (nodup_by_in eqA eqA_spec). apply in_map_iff. exists (a, (lo, hi)). split; [reflexivity|exact I].
    + apply in_map_iff. exists i. split; [reflexivity|exact Ii].
  - unfold covers. cbn [fst snd]. unfold z in *. destruct (Z.ltb_spec (Z.of_nat d) (big A rs)).
    + split; [lia|]. destruct (Z.leb_spec (big A rs) (snd i)); [exact Logic.I|lia].
    + split; [lia|]. destruct (Z.leb_spec (big A rs) (snd i)); [exact Logic.I|lia].
Qed.
(* every atom in a head position of the formula shifted by d is covered by an entry of the domain rule *)
Theorem domain_covers (p : hf A) (d : nat) (a : A) : In a (head_atoms A (shift A p d)) -> exists e, In e (entries A eqA p) /\ fst e = a /\ covers A d e.
Proof. intros I. destruct (ranges_cover A p d a I) as (r & Ir & W). exact (entries_cover _ a r d Ir W). Qed.
End Cover.
