Require Import GenPrelude FromTransformers Ctx.
(* specification, written from the property text *)
Definition is_constraint_spec (sh : shape) : bool :=
  is_rule sh && head_is_literal sh && ((atom_is_boolconst sh && negb (value sh)) || negb (nosign sh)).
Definition is_normal_spec (sh : shape) : bool := is_rule sh && head_is_literal sh && nosign sh && atom_is_symbolic sh.
Definition positive_head (sh : shape) (pl : place) : bool := match pl with HeadLit => nosign sh | HeadElem ns => ns | _ => false end.
Inductive expected := EAccept | ERejectFuture | ERejectPast.
Definition allowed (sh : shape) (pl : place) (shift : Z) (initially : bool) : expected :=
  if is_constraint_spec sh then EAccept
  else if positive_head sh pl then
         (if (0 <? shift)%Z then (if is_normal_spec sh then EAccept else ERejectFuture)
          else if (shift <? 0)%Z || initially then ERejectPast else EAccept)
       else if (0 <? shift)%Z then ERejectFuture else EAccept.
Definition verdict_class (v : verdict) : option expected :=
  match v with Accept _ _ _ _ => Some EAccept | RejectFuture => Some ERejectFuture | RejectPast => Some ERejectPast | Raises => None end.
Lemma shift_of_spec lead stem trail : shift_of lead stem trail = Some (Z.of_nat trail - Z.of_nat lead)%Z.
Proof. unfold shift_of, shift_update_gen. cbn [olift2]. f_equal. lia. Qed.
Lemma flags_spec sh pl : flags sh pl =
  Some (let hd := head_before pl && lit_nosign sh pl in
        (hd, negb (is_constraint_spec sh) && (negb hd || negb (is_normal_spec sh)), hd)).
Proof.
  destruct sh as [r l b s v n]; destruct pl as [|ns|ns|ns|ns]; try destruct ns; destruct r, l, b, s, v, n; reflexivity.
Qed.
(* positions that exist: the head literal of a rule carries a symbolic atom; elements and their conditions belong to
   heads that are not a single literal *)
Definition wf_place (sh : shape) (pl : place) : bool :=
  match pl with
  | HeadLit => is_rule sh && head_is_literal sh && atom_is_symbolic sh && negb (atom_is_boolconst sh)
  | HeadElem _ | HeadCond _ => is_rule sh && negb (head_is_literal sh)
  | _ => true
  end.
Theorem decide_spec sh pl lead stem trail initially : wf_place sh pl = true -> (initially = true -> lead = 0 /\ trail = 0) ->
  verdict_class (decide sh pl lead stem trail initially) = Some (allowed sh pl (Z.of_nat trail - Z.of_nat lead)%Z initially).
Proof.
  intros WP WF. unfold decide. rewrite flags_spec, shift_of_spec.
  assert (initially = true -> (Z.of_nat trail - Z.of_nat lead)%Z = 0%Z) as WF' by (intros E; destruct (WF E); lia). clear WF.
  set (s := (Z.of_nat trail - Z.of_nat lead)%Z) in *. clearbody s.
  unfold get_param, allowed, fail_future_gen, fail_past_gen, future_test_gen, time_shifted_gen, time_zero_gen.
  destruct sh as [r l b sy v n]; destruct pl as [|ns|ns|ns|ns]; try destruct ns; destruct r, l, b, sy, v, n, initially; try discriminate WP; clear WP;
    cbn [is_constraint_spec is_normal_spec positive_head head_before lit_nosign Ctx.is_rule Ctx.head_is_literal Ctx.atom_is_boolconst Ctx.atom_is_symbolic Ctx.value Ctx.nosign
         andb orb negb pand por pnot olift2 option_map];
    rewrite ?Z.gtb_ltb; destruct (Z.ltb_spec 0 s); destruct (Z.ltb_spec s 0); destruct (Z.eqb_spec s 0); try lia; try reflexivity;
    try (specialize (WF' eq_refl); lia).
Qed.
(* what an accepted atom is turned into *)
Theorem decide_accept sh pl lead stem trail initially r la ts tz :
  decide sh pl lead stem trail initially = Accept r la ts tz ->
  ts = (Z.of_nat trail - Z.of_nat lead)%Z /\ tz = (((Z.of_nat trail - Z.of_nat lead) =? 0)%Z && initially) /\
  r = ((0 <? Z.of_nat trail - Z.of_nat lead)%Z && (head_before pl && lit_nosign sh pl)) /\
  la = ((0 <? Z.of_nat trail - Z.of_nat lead)%Z && negb (head_before pl && lit_nosign sh pl)).
Proof.
  unfold decide. rewrite flags_spec, shift_of_spec. set (s := (Z.of_nat trail - Z.of_nat lead)%Z). clearbody s.
  unfold get_param, fail_future_gen, fail_past_gen, future_test_gen, time_shifted_gen, time_zero_gen.
  set (hd := head_before pl && lit_nosign sh pl). clearbody hd.
  set (ff := negb (is_constraint_spec sh) && (negb hd || negb (is_normal_spec sh))). clearbody ff.
  destruct hd, ff, initially; cbn [andb orb negb pand por pnot olift2 option_map];
    rewrite ?Z.gtb_ltb; destruct (Z.ltb_spec 0 s); destruct (Z.ltb_spec s 0); destruct (Z.eqb_spec s 0); try lia;
    intros E; try discriminate E; injection E as <- <- <- <-; repeat split; try reflexivity; try lia.
Qed.
(* theory atoms: rejected exactly in a positive body of a non-constraint *)
Lemma tel_ctx_spec negation constraint : tel_ctx_reject_gen negation constraint = Some (negb negation && negb constraint)
                                      /\ del_ctx_reject_gen negation constraint = Some (negb negation && negb constraint).
Proof. destruct negation, constraint; split; reflexivity. Qed.
Lemma literal_flags_spec head ns : literal_negation_gen ns = Some (negb ns) /\ literal_head_gen head ns = Some (head && ns).
Proof. destruct head, ns; split; reflexivity. Qed.
Lemma lookahead_part_spec m final : lookahead_part_gen m final = Some ((0 <? m)%Z && negb final).
Proof. unfold lookahead_part_gen. destruct final; pbool. Qed.
Lemma initially_spec us1 us2 : initially_gen us1 us2 = Some (us1 && negb us2).
Proof. destruct us1, us2; reflexivity. Qed.
