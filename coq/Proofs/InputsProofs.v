(* Input texts and directives: every text starts in the initial part whatever came before it; a text is resolved on its own; a text may be cut
   into two texts before any directive, and before a statement exactly if the initial part is in force there. *)
From Coq Require Import List Bool Arith String.
Require Import GenPrelude FromParts FutTransform Inputs.
Import ListNotations.
Local Open Scope string_scope.
Local Open Scope list_scope.
(* leaf lemmas over the regenerated visit_Program *)
Lemma directive_forgets_the_state n f p f' p' : visit_program_gen n f p = visit_program_gen n f' p'.
Proof. reflexivity. Qed.
Lemma base_is_initial f p : visit_program_gen "base" f p = ("initial", false, "initial").
Proof. reflexivity. Qed.
Lemma directive_table : forall f p,
  visit_program_gen "initial" f p = ("initial", false, "initial") /\ visit_program_gen "always" f p = ("always", false, "always") /\
  visit_program_gen "dynamic" f p = ("dynamic", false, "dynamic") /\ visit_program_gen "final" f p = ("always", true, "always").
Proof. intros f p. repeat split. Qed.
Section P.
Variable R : Type.
Notation stmt := (stmt R).
Definition initial_state : pstate := (false, Some "initial").
Lemma on_prog_forgets st st' n : on_prog st n = on_prog st' n.
Proof. unfold on_prog. now rewrite (directive_forgets_the_state n (fst st) _ (fst st') (match snd st' with Some p => p | None => "" end)). Qed.
Lemma on_prog_base st : on_prog st "base" = initial_state.
Proof. unfold on_prog. now rewrite base_is_initial. Qed.
(* every text starts in the initial part, whatever the texts before it ended in *)
Theorem text_starts_in_the_initial_part st (i : list stmt) : resolve R st (text R i) = resolve R initial_state i /\ state_after R st (text R i) = state_after R initial_state i.
Proof. unfold text. cbn [resolve state_after]. now rewrite on_prog_base. Qed.
Lemma resolve_app st a b : resolve R st (a ++ b) = resolve R st a ++ resolve R (state_after R st a) b.
Proof.
  revert st. induction a as [|x a IH]; intros st; cbn [app resolve state_after]; [reflexivity|].
  destruct x as [n|r]; cbn [resolve state_after]; [apply IH|]. now rewrite IH.
Qed.
Lemma state_after_app st a b : state_after R st (a ++ b) = state_after R (state_after R st a) b.
Proof. revert st. induction a as [|x a IH]; intros st; cbn [app state_after]; [reflexivity|]. destruct x; apply IH. Qed.
Lemma resolve_texts st (inputs : list (list stmt)) :
  resolve R st (List.concat (map (text R) inputs)) = List.concat (map (resolve R initial_state) inputs).
Proof.
  revert st. induction inputs as [|i r IH]; intros st; cbn [map List.concat]; [reflexivity|].
  rewrite resolve_app, IH. f_equal; apply (proj1 (text_starts_in_the_initial_part st i)).
Qed.
(* ... so every text is resolved on its own: the rules of several texts are the rules of each text, one after the other *)
Theorem texts_are_resolved_one_by_one (inputs : list (list stmt)) : resolve_inputs R inputs = List.concat (map (resolve R initial_state) inputs).
Proof. apply resolve_texts. Qed.
Corollary texts_append (xs ys : list (list stmt)) : resolve_inputs R (xs ++ ys) = resolve_inputs R xs ++ resolve_inputs R ys.
Proof. rewrite !texts_are_resolved_one_by_one, map_app, concat_app. reflexivity. Qed.
(* a text may be cut in front of a directive ... *)
Theorem cut_before_a_directive (a b : list stmt) n : resolve_inputs R [a ++ SProg R n :: b] = resolve_inputs R [a; SProg R n :: b].
Proof.
  rewrite !texts_are_resolved_one_by_one. cbn [map List.concat]. rewrite app_nil_r, resolve_app. f_equal. rewrite app_nil_r.
  cbn [resolve]. now rewrite (on_prog_forgets (state_after R initial_state a) initial_state n).
Qed.
(* ... and in front of any other statement exactly if the initial part is in force there (then, and only then, the second text resolves alike) *)
Theorem cut_in_the_initial_part (a b : list stmt) : state_after R initial_state a = initial_state -> resolve_inputs R [a ++ b] = resolve_inputs R [a; b].
Proof.
  intros E. rewrite !texts_are_resolved_one_by_one. cbn [map List.concat]. rewrite !app_nil_r, resolve_app, E. reflexivity.
Qed.
Theorem cut_elsewhere_changes_the_part (a : list stmt) (r : R) (b : list stmt) :
  state_after R initial_state a <> initial_state -> resolve_inputs R [a ++ SRule R r :: b] <> resolve_inputs R [a; SRule R r :: b].
Proof.
  intros N E. rewrite !texts_are_resolved_one_by_one in E. cbn [map List.concat] in E. rewrite !app_nil_r, resolve_app in E.
  apply app_inv_head in E. cbn [resolve] in E. injection E as E _. contradiction.
Qed.
End P.
(* the rewritten program depends on the resolved statements only: the layouts above give the same output of the transformer model *)
Theorem transformer_cut_before_a_directive (A : Type) (leA : A -> A -> bool) (a b : list (stmt (body_of A))) n :
  transform_inputs A leA [a ++ SProg _ n :: b] = transform_inputs A leA [a; SProg _ n :: b].
Proof. unfold transform_inputs. now rewrite cut_before_a_directive. Qed.
Theorem transformer_texts_one_by_one (A : Type) (leA : A -> A -> bool) (inputs : list (list (stmt (body_of A)))) :
  transform_inputs A leA inputs = match all_rules A (List.concat (map (resolve _ initial_state) inputs)) with Some P => transform_program A leA P | None => None end.
Proof. unfold transform_inputs. now rewrite texts_are_resolved_one_by_one. Qed.
(* which texts the command line tool reads (TelApp.main; the condition is REGENERATED, the statements around it are checked textually by the translator) *)
Require Import FromApp.
From Coq Require Import ZArith Lia.
Inductive source := SrcFile (k : nat) | SrcStdin.        (* the k-th file named on the command line | standard input *)
Definition main_sources (nfiles : nat) : option (list source) :=
  match main_uses_stdin_gen nfiles with Some b => Some (map SrcFile (seq 0 nfiles) ++ (if b then [SrcStdin] else [])) | None => None end.
Lemma main_uses_stdin_spec n : main_uses_stdin_gen n = Some (Nat.eqb n 0).
Proof. unfold main_uses_stdin_gen, olift2. f_equal. destruct n; [reflexivity|]. cbn [Nat.eqb]. apply Z.eqb_neq. lia. Qed.
Theorem all_files_are_read_in_order n : main_sources n = Some (if Nat.eqb n 0 then [SrcStdin] else map SrcFile (seq 0 n)).
Proof. unfold main_sources. rewrite main_uses_stdin_spec. destruct n; [reflexivity|]. cbn [Nat.eqb]. now rewrite app_nil_r. Qed.
