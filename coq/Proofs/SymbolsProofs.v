(* create_symbol undoes the way gringo writes a symbol into a theory term: an atom inside a body formula whose argument is a variable bound to the
   symbol s (or the symbol written out) is looked up with s itself - numbers of either sign, strings with escape sequences, constants, functions,
   classical negation, tuples, #inf / #sup, nested. *)
From Coq Require Import List Bool Arith ZArith String Ascii Lia.
Require Import GenPrelude FromTables TheoryPrelude FormPrelude FromBodyForm Symbols.
Import ListNotations.
Local Open Scope string_scope.
(* ---- strings ---- *)
Lemma unescape_escape s : unescape (escape s) = s.
Proof.
  induction s as [|c r IH]; [reflexivity|]. cbn [escape].
  destruct (Ascii.eqb c bsl) eqn:E1.
  - apply Ascii.eqb_eq in E1. subst c. cbn [unescape]. rewrite Ascii.eqb_refl. cbn. now rewrite IH.
  - destruct (Ascii.eqb c dq) eqn:E2.
    + apply Ascii.eqb_eq in E2. subst c. cbn [unescape]. rewrite Ascii.eqb_refl. cbn. now rewrite IH.
    + destruct (Ascii.eqb c nl) eqn:E3.
      * apply Ascii.eqb_eq in E3. subst c. cbn [unescape]. rewrite Ascii.eqb_refl. cbn. now rewrite IH.
      * cbn [unescape]. rewrite E1. now rewrite IH.
Qed.
Lemma drop_last_app x q : drop_last (x ++ String q EmptyString) = x.
Proof. induction x as [|c r IH]; [reflexivity|]. destruct r as [|d r']; [reflexivity|]. simpl in *. now rewrite IH. Qed.
Lemma last_is_app x q : last_is q (x ++ String q EmptyString) = true.
Proof. induction x as [|c r IH]; [cbn; apply Ascii.eqb_refl|]. destruct r as [|d r']; [cbn; apply Ascii.eqb_refl|]. simpl in *. exact IH. Qed.
Lemma is_quoted_quote s : is_quoted (quote s) = true.
Proof.
  unfold quote, is_quoted. destruct (escape s ++ String dq EmptyString) eqn:E; [destruct (escape s); discriminate|].
  rewrite <- E, Ascii.eqb_refl, last_is_app. reflexivity.
Qed.
Theorem unquote_quote s : unquote (quote s) = s.
Proof. unfold quote, unquote. now rewrite drop_last_app, unescape_escape. Qed.
(* ---- symbols ---- *)
Definition starts_dq (n : string) : bool := match n with String c _ => Ascii.eqb c dq | EmptyString => false end.
Definition plain (name : string) : bool :=
  negb (is_operator name) && negb (mem name arithmetic_operators_gen) && negb (String.eqb name "#inf") && negb (String.eqb name "#sup") && negb (is_quoted name).
(* the symbols of the claim: function names are names (not operators, not quoted, not #inf / #sup); a tuple carries no classical negation (gringo
   itself drops the sign of a negated tuple when it writes it into a theory term) *)
Fixpoint wfs (s : sym) : bool :=
  match s with
  | YFun name args pos => plain name && (if String.eqb name "" then pos else true) && forallb wfs args
  | _ => true
  end.
Fixpoint sym_ind' (P : sym -> Prop) (hn : forall z, P (YNum z)) (hs : forall x, P (YStr x)) (hf : forall name args pos, Forall P args -> P (YFun name args pos))
  (hi : P YInf) (hp : P YSup) (s : sym) : P s :=
  match s with
  | YNum z => hn z | YStr x => hs x | YInf => hi | YSup => hp
  | YFun n a p => hf n a p ((fix go (l : list sym) : Forall P l := match l with [] => Forall_nil P | x :: r => Forall_cons x (sym_ind' P hn hs hf hi hp x) (go r) end) a)
  end.
Lemma mem_forallb (P : string -> bool) n L : mem n L = true -> forallb P L = true -> P n = true.
Proof.
  unfold mem. intros M F. apply existsb_exists in M as [m [Im E]]. apply String.eqb_eq in E. subst m. rewrite forallb_forall in F. now apply F.
Qed.
Lemma no_operator_starts_with_a_quote n : starts_dq n = true -> is_operator n = false.
Proof.
  intros S. unfold is_operator. destruct (mem n g_binary_operators_gen) eqn:M1; [|destruct (mem n g_unary_operators_gen) eqn:M2; [|destruct (mem n g_tel_operators_gen) eqn:M3; [|reflexivity]]];
    exfalso; [pose proof (mem_forallb (fun x => negb (starts_dq x)) n _ M1 eq_refl) as C|pose proof (mem_forallb (fun x => negb (starts_dq x)) n _ M2 eq_refl) as C|pose proof (mem_forallb (fun x => negb (starts_dq x)) n _ M3 eq_refl) as C];
    cbn beta in C; rewrite S in C; discriminate.
Qed.
Lemma quote_starts s : starts_dq (quote s) = true.  Proof. unfold quote, starts_dq. apply Ascii.eqb_refl. Qed.
Lemma minus_is_arithmetic : mem "-" arithmetic_operators_gen = true.  Proof. reflexivity. Qed.
Lemma cs_sym name : create_symbol (TSym name) =
  if is_operator name then None else if String.eqb name "#inf" then Some YInf else if String.eqb name "#sup" then Some YSup
  else if is_quoted name then Some (YStr (unquote name)) else Some (YFun name [] true).
Proof. reflexivity. Qed.
Lemma cs_tup args : create_symbol (TTup args) = option_map (fun l => YFun "" l true) (all_some (map create_symbol args)).
Proof. reflexivity. Qed.
Lemma cs_fun name a args : mem name arithmetic_operators_gen = false -> is_operator name = false ->
  create_symbol (TFun name (a :: args)) = option_map (fun l => YFun name l true) (all_some (map create_symbol (a :: args))).
Proof. intros M O. cbn [create_symbol]. rewrite M, O. reflexivity. Qed.
Lemma cs_neg a : create_symbol (TFun "-" [a]) = match create_symbol a with Some (YNum n) => Some (YNum (- n)) | Some (YFun f l p) => Some (YFun f l (negb p)) | _ => None end.
Proof. cbn [create_symbol]. rewrite minus_is_arithmetic. reflexivity. Qed.
Lemma all_some_map args : Forall (fun x => create_symbol (encode x) = Some x) args -> all_some (map create_symbol (map encode args)) = Some args.
Proof. induction 1 as [|x r Hx _ IH]; [reflexivity|]. cbn [map all_some fold_right]. unfold all_some in IH. now rewrite Hx, IH. Qed.
Lemma plain_parts name : plain name = true -> is_operator name = false /\ mem name arithmetic_operators_gen = false /\ String.eqb name "#inf" = false /\ String.eqb name "#sup" = false /\ is_quoted name = false.
Proof. unfold plain. rewrite !andb_true_iff, !negb_true_iff. tauto. Qed.
Theorem create_symbol_undoes_the_encoding : forall s, wfs s = true -> create_symbol (encode s) = Some s.
Proof.
  induction s as [z|x|name args pos IH| |] using sym_ind'; intros W.
  - cbn [encode]. destruct (z <? 0)%Z eqn:E; [|reflexivity]. rewrite cs_neg. cbn [create_symbol]. now rewrite Z.opp_involutive.
  - cbn [encode]. rewrite cs_sym, (no_operator_starts_with_a_quote _ (quote_starts x)), is_quoted_quote, unquote_quote.
    assert (String.eqb (quote x) "#inf" = false /\ String.eqb (quote x) "#sup" = false) as [-> ->]; [|reflexivity].
    split; apply String.eqb_neq; intros C; pose proof (quote_starts x) as Q; rewrite C in Q; discriminate.
  - cbn [wfs] in W. apply andb_true_iff in W as [W Wa]. apply andb_true_iff in W as [Pl Sg].
    destruct (plain_parts name Pl) as [O [Ar [I1 [I2 Qd]]]].
    assert (Forall (fun x => create_symbol (encode x) = Some x) args) as Fa.
    { rewrite forallb_forall in Wa. rewrite Forall_forall in *. intros x Hx. apply IH; [exact Hx|now apply Wa]. }
    assert (create_symbol (encode (YFun name args true)) = Some (YFun name args true)) as Pos.
    { cbn [encode]. destruct (String.eqb name "") eqn:En.
      - apply String.eqb_eq in En. subst name. now rewrite cs_tup, (all_some_map args Fa).
      - destruct args as [|a r].
        + now rewrite cs_sym, O, I1, I2, Qd.
        + change (map encode (a :: r)) with (encode a :: map encode r). rewrite (cs_fun name (encode a) (map encode r) Ar O).
          change (encode a :: map encode r) with (map encode (a :: r)). now rewrite (all_some_map (a :: r) Fa). }
    destruct pos; [exact Pos|].
    destruct (String.eqb name "") eqn:En; [discriminate Sg|].
    change (encode (YFun name args false)) with (TFun "-" [if String.eqb name "" then TTup (map encode args) else match args with [] => TSym name | _ => TFun name (map encode args) end]).
    rewrite cs_neg. cbn [encode] in Pos. now rewrite Pos.
  - reflexivity.
  - reflexivity.
Qed.
(* a negative number written out, and a classically negated atom argument, mean what they say *)
Example written_terms : create_symbol (TFun "p" [TFun "-" [TNum 1]; TFun "-" [TFun "f" [TSym """a"""]]; TTup [TNum 1; TSym "#sup"]; TFun "-" [TNum 3; TNum 1]])
  = Some (YFun "p" [YNum (-1); YFun "f" [YStr "a"] false; YFun "" [YNum 1; YSup] true; YNum 2] true).
Proof. reflexivity. Qed.
