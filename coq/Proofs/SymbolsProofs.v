(* create_symbol undoes the way gringo writes a symbol into a theory term: an atom inside a body formula whose argument is a variable bound to the
   symbol s (or the symbol written out) is looked up with s itself - numbers of either sign, strings with escape sequences, constants, functions,
   classical negation, tuples, #inf / #sup, nested. *)
From Coq Require Import List Bool Arith ZArith String Ascii Lia.
Require Import GenPrelude FromTables TheoryPrelude FormPrelude FromBodyForm Symbols.
Import ListNotations.
Local Open Scope string_scope.
(* ---- strings ---- *)
Lemma unescape_escape s : unescape (escape s) = s.
Proof.
  induction s as [|c r IH]; [reflexivity|]. cbn [escape].
  destruct (Ascii.eqb c bsl) eqn:E1.
  - apply Ascii.eqb_eq in E1. subst c. cbn [unescape]. rewrite Ascii.eqb_refl. cbn. now rewrite IH.
  - destruct (Ascii.eqb c dq) eqn:E2.
    + apply Ascii.eqb_eq in E2. subst c. cbn [unescape]. rewrite Ascii.eqb_refl. cbn. now rewrite IH.
    + destruct (Ascii.eqb c nl) eqn:E3.
      * apply Ascii.eqb_eq in E3. subst c. cbn [unescape]. rewrite Ascii.eqb_refl. cbn. now rewrite IH.
      * cbn [unescape]. rewrite E1. now rewrite IH.
Qed.
Lemma drop_last_app x q : drop_last (x ++ String q EmptyString) = x.
Proof. induction x as [|c r IH]; [reflexivity|]. destruct r as [|d r']; [reflexivity|]. simpl in *. now rewrite IH. Qed.
Lemma last_is_app x q : last_is q (x ++ String q EmptyString) = true.
Proof. induction x as [|c r IH]; [cbn; apply Ascii.eqb_refl|]. destruct r as [|d r']; [cbn; apply Ascii.eqb_refl|]. simpl in *. exact IH. Qed.
Lemma is_quoted_quote s : is_quoted (quote s) = true.
Proof.
  unfold quote, is_quoted. destruct (escape s ++ String dq EmptyString) eqn:E; [destruct (escape s); discriminate|].
  rewrite <- E, Ascii.eqb_refl, last_is_app. reflexivity.
Qed.
Theorem unquote_quote s : unquote (quote s) = s.
Proof. unfold quote, unquote. now rewrite drop_last_app, unescape_escape. Qed.
(* ---- symbols ---- *)
Definition starts_dq (n : string) : bool := match n with String c _ => Ascii.eqb c dq | EmptyString => false end.
Definition plain (name : string) : bool :=
  negb (is_operator name) && negb (mem name arithmetic_operators_gen) && negb (String.eqb name "#inf") && negb (String.eqb name "#sup") && negb (is_quoted name).
(* the symbols of the claim: function names are names (not operators, not quoted, not #inf / #sup); a tuple carries no classical negation (gringo
   itself drops the sign of a negated tuple when it writes it into a theory term) *)
Fixpoint wfs (s : sym) : bool :=
  match s with
  | YFun name args pos => plain name && (if String.eqb name "" then pos else true) && forallb wfs args
  | _ => true
  end.
Fixpoint sym_ind' (P : sym -> Prop) (hn : forall z, P (YNum z)) (hs : forall x, P (YStr x)) (hf : forall name args pos, Forall P args -> P (YFun name args pos))
  (hi : P YInf) (hp : P YSup) (s : sym) : P s :=
  match s with
  | YNum z => hn z | YStr x => hs x | YInf => hi | YSup => hp
  | YFun n a p => hf n a p ((fix go (l : list sym) : Forall P l := match l with [] => Forall_nil P | x :: r => Forall_cons x (sym_ind' P hn hs hf hi hp x) (go r) end) a)
  end.
Lemma mem_forallb (P : string -> bool) n L : mem n L = true -> forallb P L = true -> P n = true.
Proof.
  unfold mem. intros M F. apply existsb_exists in M as [m [Im E]]. apply String.eqb_eq in E. subst m. rewrite forallb_forall in F. now apply F.
Qed.
Lemma no_operator_starts_with_a_quote n : starts_dq n = true -> is_operator n = false.
Proof.
  intros S. unfold is_operator. destruct (mem n g_binary_operators_gen) eqn:M1; [|destruct (mem n g_unary_operators_gen) eqn:M2; [|destruct (mem n g_tel_operators_gen) eqn:M3; [|reflexivity]]];
    exfalso; [pose proof (mem_forallb (fun x => negb (starts_dq x)) n _ M1 eq_refl) as C|pose proof (mem_forallb (fun x => negb (starts_dq x)) n _ M2 eq_refl) as C|pose proof (mem_forallb (fun x => negb (starts_dq x)) n _ M3 eq_refl) as C];
    cbn beta in C; rewrite S in C; discriminate.
Qed.
Lemma quote_starts s : starts_dq (quote s) = true.  Proof. unfold quote, starts_dq. apply Ascii.eqb_refl. Qed.
Lemma minus_is_arithmetic : mem "-" arithmetic_operators_gen = true.  Proof. reflexivity. Qed.
Lemma cs_sym name : create_symbol (TSym name) =
  if is_operator name then None else if String.eqb name "#inf" then Some YInf else if String.eqb name "#sup" then Some YSup
  else if is_quoted name then Some (YStr (unquote name)) else Some (YFun name [] true).
Proof. reflexivity. Qed.
Lemma cs_tup args : create_symbol (TTup args) = option_map (fun l => YFun "" l true) (all_some (map create_symbol args)).
Proof. reflexivity. Qed.
Lemma cs_fun name a args : mem name arithmetic_operators_gen = false -> is_operator name = false ->
  create_symbol (TFun name (a :: args)) = option_map (fun l => YFun name l true) (all_some (map create_symbol (a :: args))).
Proof. intros M O. cbn [create_symbol]. rewrite M, O. reflexivity. Qed.
Lemma cs_neg a : create_symbol (TFun "-" [a]) = match create_symbol a with Some (YNum n) => Some (YNum (- n)) | Some (YFun f l p) => Some (YFun f l (negb p)) | _ => None end.
Proof. cbn [create_symbol]. rewrite minus_is_arithmetic. reflexivity. Qed.
Lemma all_some_map args : Forall (fun x => create_symbol (encode x) = Some x) args -> all_some (map create_symbol (map encode args)) = Some args.
Proof. induction 1 as [|x r Hx _ IH]; [reflexivity|]. cbn [map all_some fold_right]. unfold all_some in IH. now rewrite Hx, IH. Qed.
Lemma plain_parts name : plain name = true -> is_operator name = false /\ mem name arithmetic_operators_gen = false /\ String.eqb name "#inf" = false /\ String.eqb name "#sup" = false /\ is_quoted name = false.
Proof. unfold plain. rewrite !andb_true_iff, !negb_true_iff. tauto. Qed.
Theorem create_symbol_undoes_the_encoding : forall s, wfs s = true -> create_symbol (encode s) = Some s.
Proof.
  induction s as [z|x|name args pos IH| |] using sym_ind'; intros W.
  - cbn [encode]. destruct (z <? 0)%Z eqn:E; [|reflexivity]. rewrite cs_neg. cbn [create_symbol]. now rewrite Z.opp_involutive.
  - cbn [encode]. rewrite cs_sym, (no_operator_starts_with_a_quote _ (quote_starts x)), is_quoted_quote, unquote_quote.
    assert (String.eqb (quote x) "#inf" = false /\ String.eqb (quote x) "#sup" = false) as [-> ->]; [|reflexivity].
    split; apply String.eqb_neq; intros C; pose proof (quote_starts x) as Q; rewrite C in Q; discriminate.
  - cbn [wfs] in W. apply andb_true_iff in W as [W Wa]. apply andb_true_iff in W as [Pl Sg].
    destruct (plain_parts name Pl) as [O [Ar [I1 [I2 Qd]]]].
    assert (Forall (fun x => create_symbol (encode x) = Some x) args) as Fa.
    { rewrite forallb_forall in Wa. rewrite Forall_forall in *. intros x Hx. apply IH; [exact Hx|now apply Wa]. }
    assert (create_symbol (encode (YFun name args true)) = Some (YFun name args true)) as Pos.
    { cbn [encode]. destruct (String.eqb name "") eqn:En.
      - apply String.eqb_eq in En. subst name. now rewrite cs_tup, (all_some_map args Fa).
      - destruct args as [|a r].
        + now rewrite cs_sym, O, I1, I2, Qd.
        + change (map encode (a :: r)) with (encode a :: map encode r). rewrite (cs_fun name (encode a) (map encode r) Ar O).
          change (encode a :: map encode r) with (map encode (a :: r)). now rewrite (all_some_map (a :: r) Fa). }
    destruct pos; [exact Pos|].
    destruct (String.eqb name "") eqn:En; [discriminate Sg|].
    change (encode (YFun name args false)) with (TFun "-" [if String.eqb name "" then TTup (map encode args) else match args with [] => TSym name | _ => TFun name (map encode args) end]).
    rewrite cs_neg. cbn [encode] in Pos. now rewrite Pos.
  - reflexivity.
  - reflexivity.
Qed.
(* a negative number written out, and a classically negated atom argument, mean what they say *)
Example written_terms : create_symbol (TFun "p" [TFun "-" [TNum 1]; TFun "-" [TFun "f" [TSym """a"""]]; TTup [TNum 1; TSym "#sup"]; TFun "-" [TNum 3; TNum 1]])
  = Some (YFun "p" [YNum (-1); YFun "f" [YStr "a"] false; YFun "" [YNum 1; YSup] true; YNum 2] true).
Proof. reflexivity. Qed.
(* ---- head and body read the arguments of an atom alike ---- *)
Definition name_ok (name : string) : bool := plain name && negb (in_head_table name) && negb (String.eqb name "").
Fixpoint wfw (w : wterm) : bool :=
  match w with
  | WNum n => (0 <=? n)%Z
  | WConst c => name_ok c
  | WFun name args => name_ok name && negb (match args with [] => true | _ => false end) && forallb wfw args
  | WTup args => forallb wfw args
  | WNeg a => wfw a
  | WBin _ l r => wfw l && wfw r
  | _ => true
  end.
Fixpoint wterm_ind' (P : wterm -> Prop) (hn : forall n, P (WNum n)) (hs : forall s, P (WStr s)) (hc : forall c, P (WConst c)) (hi : P WInf) (hp : P WSup)
  (hf : forall name args, Forall P args -> P (WFun name args)) (ht : forall args, Forall P args -> P (WTup args))
  (hg : forall a, P a -> P (WNeg a)) (hb : forall pm l r, P l -> P r -> P (WBin pm l r)) (w : wterm) : P w :=
  let go := fix go (l : list wterm) : Forall P l := match l with [] => Forall_nil P | x :: r => Forall_cons x (wterm_ind' P hn hs hc hi hp hf ht hg hb x) (go r) end in
  match w with
  | WNum n => hn n | WStr s => hs s | WConst c => hc c | WInf => hi | WSup => hp
  | WFun name args => hf name args (go args) | WTup args => ht args (go args)
  | WNeg a => hg a (wterm_ind' P hn hs hc hi hp hf ht hg hb a) | WBin pm l r => hb pm l r (wterm_ind' P hn hs hc hi hp hf ht hg hb l) (wterm_ind' P hn hs hc hi hp hf ht hg hb r)
  end.
Definition head_value (sg : string -> sym) (w : wterm) : option sym := obind (to_term (in_head w)) (eval sg).
Definition as_num (o : option sym) : option Z := match o with Some (YNum n) => Some n | _ => None end.
Definition negated (o : option sym) : option sym := match o with Some (YNum n) => Some (YNum (- n)) | Some (YFun f l p) => Some (YFun f l (negb p)) | _ => None end.
Lemma all_some_cons {X} (a : option X) l : all_some (a :: l) = match a, all_some l with Some x, Some xs => Some (x :: xs) | _, _ => None end.
Proof. reflexivity. Qed.
Lemma all_some_bind {X Y Z} (f : X -> option Y) (g : Y -> option Z) l :
  all_some (map (fun x => obind (f x) g) l) = obind (all_some (map f l)) (fun ys => all_some (map g ys)).
Proof.
  induction l as [|a r IH]; [reflexivity|]. cbn [map]. rewrite !all_some_cons, IH. destruct (f a) as [y|]; cbn [obind]; [|reflexivity].
  destruct (all_some (map f r)) as [ys|]; cbn [obind map]; [now rewrite all_some_cons|]. now destruct (g y).
Qed.
Lemma all_some_ext {X Y} (f g : X -> option Y) l : Forall (fun x => f x = g x) l -> all_some (map f l) = all_some (map g l).
Proof. induction 1 as [|x r E _ IH]; [reflexivity|]. cbn [map]. now rewrite !all_some_cons, E, IH. Qed.
Lemma leaf_number n : (0 <= n)%Z -> num_leaf_gen n = Some n.
Proof. intros H. unfold num_leaf_gen, olift2. destruct (n >=? 0)%Z eqn:E; [reflexivity|]. rewrite Z.geb_leb in E. apply Z.leb_gt in E. lia. Qed.
Lemma plus_minus_arithmetic (pm : bool) : mem (if pm then "+" else "-") arithmetic_operators_gen = true.  Proof. destruct pm; reflexivity. Qed.
Lemma name_ok_parts name : name_ok name = true -> plain name = true /\ in_head_table name = false /\ String.eqb name "" = false.
Proof. unfold name_ok. rewrite !andb_true_iff, !negb_true_iff. tauto. Qed.
Lemma eval_anum sg r n : anum r = Some n -> eval sg r = Some (YNum n).
Proof. destruct r as [[z|x|f l p| |]|x|f l|a|p l r]; cbn; intros E; try discriminate. now injection E as ->. Qed.
Lemma anum_eval (r : aterm) : anum r = None -> forall n, r <> ASym (YNum n).
Proof. intros E n ->. discriminate. Qed.
Lemma eval_bin sg (pm : bool) L R : eval sg (ABin pm L R) = match eval sg L, eval sg R with Some (YNum x), Some (YNum y) => Some (YNum (if pm then x + y else x - y)%Z) | _, _ => None end.
Proof. reflexivity. Qed.
Lemma map_map_eval sg hs : all_some (map (fun h => obind (to_term h) (eval sg)) hs) = obind (all_some (map to_term hs)) (fun l => all_some (map (eval sg) l)).
Proof. apply all_some_bind. Qed.
Theorem head_and_body_read_arguments_alike sg : forall w, wfw w = true ->
  create_symbol (in_body w) = head_value sg w /\ create_number (in_body w) = as_num (create_symbol (in_body w)).
Proof.
  induction w as [n|s|c| | |name args IH|args IH|a IH|pm l r IHl IHr] using wterm_ind'; intros W; unfold head_value.
  - cbn in W. apply Z.leb_le in W. cbn [in_body in_head to_term obind eval create_symbol create_number as_num]. split; [reflexivity|now apply leaf_number].
  - cbn [in_body in_head to_term obind eval]. change (create_symbol (TSym (quote s))) with (create_symbol (encode (YStr s))).
    rewrite create_symbol_undoes_the_encoding by reflexivity. split; reflexivity.
  - cbn [wfw] in W. destruct (name_ok_parts c W) as [Pl [_ _]]. destruct (plain_parts c Pl) as [O [_ [I1 [I2 Q]]]].
    cbn [in_body in_head to_term obind eval]. rewrite cs_sym, O, I1, I2, Q. split; reflexivity.
  - split; reflexivity.
  - split; reflexivity.
  - cbn [wfw] in W. apply andb_true_iff in W as [W Wa]. apply andb_true_iff in W as [Nm Ne].
    destruct (name_ok_parts name Nm) as [Pl [Tb En]]. destruct (plain_parts name Pl) as [O [Ar _]].
    assert (Forall (fun x => create_symbol (in_body x) = head_value sg x) args) as Fa.
    { rewrite forallb_forall in Wa. rewrite Forall_forall in *. intros x Hx. apply (IH x Hx), Wa, Hx. }
    destruct args as [|a0 rest]; [discriminate Ne|].
    assert (to_term (in_head (WFun name (a0 :: rest))) = option_map (AFun name) (all_some (map to_term (map in_head (a0 :: rest))))) as TT.
    { cbn [in_head map to_term]. assert (String.eqb name "-" = false) as N1 by (apply String.eqb_neq; intros ->; discriminate Ar).
      assert (String.eqb name "+" = false) as N2 by (apply String.eqb_neq; intros ->; discriminate Ar).
      destruct rest as [|a1 [|a2 rest']]; cbn [map]; rewrite ?N1, ?N2, ?Tb; reflexivity. }
    split.
    + change (in_body (WFun name (a0 :: rest))) with (TFun name (in_body a0 :: map in_body rest)). rewrite (cs_fun name _ _ Ar O). rewrite TT.
      change (in_body a0 :: map in_body rest) with (map in_body (a0 :: rest)). rewrite !map_map.
      rewrite (all_some_ext _ _ _ Fa). unfold head_value. rewrite (all_some_bind (fun x => to_term (in_head x)) (eval sg)).
      destruct (all_some (map (fun x => to_term (in_head x)) (a0 :: rest))) as [ys|]; reflexivity.
    + change (in_body (WFun name (a0 :: rest))) with (TFun name (in_body a0 :: map in_body rest)). rewrite (cs_fun name _ _ Ar O).
      assert (create_number (TFun name (in_body a0 :: map in_body rest)) = None) as ->.
      { cbn [create_number]. assert (String.eqb name "-" = false) as N1 by (apply String.eqb_neq; intros ->; discriminate Ar).
        destruct (map in_body rest) as [|b [|b2 r2]]; rewrite ?N1, ?Ar; reflexivity. }
      now destruct (all_some (map create_symbol (in_body a0 :: map in_body rest))).
  - cbn [wfw] in W.
    assert (Forall (fun x => create_symbol (in_body x) = head_value sg x) args) as Fa.
    { rewrite forallb_forall in W. rewrite Forall_forall in *. intros x Hx. apply (IH x Hx), W, Hx. }
    cbn [in_body in_head to_term]. rewrite cs_tup, !map_map, (all_some_ext _ _ _ Fa). unfold head_value. rewrite (all_some_bind (fun x => to_term (in_head x)) (eval sg)).
    split; [destruct (all_some (map (fun x => to_term (in_head x)) args)) as [ys|]; reflexivity|].
    cbn [create_number]. now destruct (obind (all_some (map (fun x => to_term (in_head x)) args)) (fun ys => all_some (map (eval sg) ys))).
  - cbn [wfw] in W. destruct (IH W) as [E N]. cbn [in_body in_head]. rewrite cs_neg. fold (negated (create_symbol (in_body a))). split.
    + rewrite E. unfold head_value. cbn [to_term]. rewrite String.eqb_refl. destruct (to_term (in_head a)) as [r0|]; cbn [option_map obind]; [|reflexivity].
      destruct (anum r0) as [n|] eqn:An; [rewrite (eval_anum sg r0 n An); reflexivity|]. reflexivity.
    + cbn [create_number]. rewrite String.eqb_refl, N. destruct (create_symbol (in_body a)) as [[z|x|f l0 p| |]|]; reflexivity.
  - cbn [wfw] in W. apply andb_true_iff in W as [Wl Wr]. destruct (IHl Wl) as [El Nl]. destruct (IHr Wr) as [Er Nr].
    assert (create_symbol (in_body (WBin pm l r)) = option_map YNum (create_number (in_body (WBin pm l r)))) as CS.
    { cbn [in_body create_symbol]. now rewrite plus_minus_arithmetic. }
    assert (create_number (in_body (WBin pm l r)) = match as_num (create_symbol (in_body l)), as_num (create_symbol (in_body r)) with Some x, Some y => Some (if pm then x + y else x - y)%Z | _, _ => None end) as CN.
    { cbn [in_body create_number]. rewrite plus_minus_arithmetic, Nl, Nr. destruct (as_num (create_symbol (in_body l))) as [x|]; cbn [obind]; [|reflexivity].
      destruct (as_num (create_symbol (in_body r))) as [y|]; cbn [obind]; [|reflexivity]. destruct pm; reflexivity. }
    split.
    + rewrite CS, CN, El, Er. unfold head_value. cbn [in_head to_term].
      assert (String.eqb (if pm then "+" else "-") "+" || String.eqb (if pm then "+" else "-") "-" = true) as -> by (destruct pm; reflexivity).
      assert (String.eqb (if pm then "+" else "-") "+" = pm) as -> by (destruct pm; reflexivity).
      destruct (to_term (in_head l)) as [L|]; cbn [obind as_num]; [|reflexivity].
      destruct (to_term (in_head r)) as [R|]; cbn [obind as_num].
      * destruct (anum L) as [x|] eqn:AL.
        -- rewrite (eval_anum sg L x AL). cbn [as_num]. destruct (anum R) as [y|] eqn:AR.
           ++ rewrite (eval_anum sg R y AR). reflexivity.
           ++ cbn [obind]. rewrite eval_bin, (eval_anum sg L x AL). destruct (eval sg R) as [[y|s0|f l0 p| |]|]; reflexivity.
        -- cbn [obind]. rewrite eval_bin. destruct (eval sg L) as [[x|s0|f l0 p| |]|]; cbn [as_num option_map]; try reflexivity.
           destruct (eval sg R) as [[y|s0|f l0 p| |]|]; reflexivity.
      * now destruct (as_num (eval sg L)).
    + rewrite CS. now destruct (create_number (in_body (WBin pm l r))).
Qed.
(* two different symbols are never looked up as the same atom argument *)
Theorem distinct_symbols_stay_distinct : forall s1 s2, wfs s1 = true -> wfs s2 = true -> create_symbol (encode s1) = create_symbol (encode s2) -> s1 = s2.
Proof.
  intros s1 s2 W1 W2 E. rewrite (create_symbol_undoes_the_encoding s1 W1), (create_symbol_undoes_the_encoding s2 W2) in E. congruence.
Qed.
