(* The construction tables of the dynamic layer REGENERATED from DiamondFormula / BoxFormula.translate_<PathClass> (Gen/FromDynamic.v) build, for
   every path class, the formulas that Model/BodyTheoryFull.v reasons about (dia_built / box_built): the section hypothesis reduce_eqs of that file. *)
From Coq Require Import List Bool Arith.
Require Import GenPrelude TheoryPrelude FromTheory DynPrelude FromDynamic LDL BodyTheoryFull.
Lemma reduce_eqs_hold (A : Type) : forall (p : LDL.path A) (g : bf A),
  reduce A (Dia A p g) = Some (dia_built A p g) /\ reduce A (Box A p g) = Some (box_built A p g).
Proof. intros p g. destruct p; split; reflexivity. Qed.
