(* C17 for body formulas: the value of a formula built from atoms, constants, Boolean connectives and past operators (previous, weak previous, n-fold,
   initially, since, trigger) at a state does not depend on the horizon - and so neither does the literal the translation ties to it: what a past
   formula said about a state is never rewritten when the trace grows. *)
From Coq Require Import List Bool Arith Lia.
Require Import GenPrelude TheoryPrelude FromTheory Leaf_theory Leaf_dynamic TEL.
Require BodyTheoryFull.
Module F := BodyTheoryFull.
Section Past.
Variable A : Type.
Variable D : forall a b : A, {a = b} + {a <> b}.
Notation bf := (F.bf A).
Fixpoint past_bf (f : bf) : bool :=
  match f with
  | F.At _ _ | F.Cst _ _ => true
  | F.Neg _ x | F.Pv _ _ _ x | F.Ini _ x | F.TP1 _ _ x => past_bf x
  | F.Bin _ _ x y | F.TP2 _ _ x y => past_bf x && past_bf y
  | _ => false
  end.
Lemma pst_ext u l l' r r' k : (forall j, j <= k -> l j = l' j) -> (forall j, j <= k -> r j = r' j) -> pst u l r k = pst u l' r' k.
Proof.
  induction k as [|k IH]; intros El Er.
  - cbn. now rewrite Er.
  - cbn [pst]. rewrite (El (S k)), (Er (S k)) by lia. rewrite IH; [reflexivity|intros; apply El; lia|intros; apply Er; lia].
Qed.
Theorem past_formulas_ignore_the_horizon (f : bf) : past_bf f = true ->
  forall h h' (T T' : F.trace A) k, (forall j a, j <= k -> T j a = T' j a) -> F.lsat A h T f k = F.lsat A h' T' f k.
Proof.
  induction f as [a|b|x IH|op x IHx y IHy|n w x IH|x IH|n w x IH|u l IHl r IHr|u r IHr|u l IHl r IHr|u r IHr|p g IH|p g IH]; cbn [past_bf]; intros Pf h h' T T' k E; try discriminate; cbn [F.lsat].
  - apply E. lia.
  - reflexivity.
  - now rewrite (IH Pf h h' T T' k E).
  - apply andb_true_iff in Pf as [P1 P2]. now rewrite (IHx P1 h h' T T' k E), (IHy P2 h h' T T' k E).
  - destruct (n <=? k); [apply IH; [exact Pf|intros; apply E; lia]|reflexivity].
  - apply IH; [exact Pf|intros; apply E; lia].
  - apply andb_true_iff in Pf as [P1 P2]. apply pst_ext; intros; [apply IHl|apply IHr]; try assumption; intros; apply E; lia.
  - apply pst_ext; intros; [reflexivity|apply IHr; [exact Pf|intros; apply E; lia]].
Qed.
(* ... and with it the literal of the formula: in two states of the translation, reached at two horizons, the literals cached for a past formula at a
   state have the same value under any assignments that violate no constraint of the respective state - over traces with the same first k+1 states *)
Theorem past_literals_are_never_rewritten h s h' s' :
  F.Inv A D h nil s -> F.Wf A D s -> F.Inv A D h' nil s' -> F.Wf A D s' ->
  forall (T T' : F.trace A) v v', F.ok_cls A T v s -> F.ok_ext A D v s -> F.ok_cls A T' v' s' -> F.ok_ext A D v' s' ->
  forall f k l l', past_bf f = true -> (forall j a, j <= k -> T j a = T' j a) -> F.cached A D s f k l -> F.cached A D s' f k l' -> F.ev A T v l = F.ev A T' v' l'.
Proof.
  intros I W I' W' T T' v v' Oc Oe Oc' Oe' f k l l' Pf E C C'.
  rewrite (F.value_full A D (reduce_eqs_hold A) h s I W T v Oc Oe f k l C), (F.value_full A D (reduce_eqs_hold A) h' s' I' W' T' v' Oc' Oe' f k l' C').
  now apply past_formulas_ignore_the_horizon.
Qed.
End Past.
