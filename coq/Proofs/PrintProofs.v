Require Import GenPrelude FromApp Print.
Local Open Scope list_scope.
(* leaf lemmas over the regenerated guards *)
Lemma printable_gen_spec f n l : printable_gen f n l = Some (f && (0 <? n) && l).
Proof. unfold printable_gen. destruct f, l; cbn [pand por pnot olift2 andb]; rewrite ?Z.gtb_ltb; destruct (Z.ltb_spec 0 (Z.of_nat n)); destruct (Nat.ltb_spec 0 n); try lia; reflexivity. Qed.
Lemma visible_gen_spec d : visible_gen d = Some (negb d).
Proof. destruct d; reflexivity. Qed.
Lemma nstates_gen_spec h : nstates_gen h = Some (Z.of_nat (S h)).
Proof. unfold nstates_gen. cbn [olift2]. f_equal. lia. Qed.
(* a symbol gets a state iff it is a function symbol whose last argument is a number *)
Definition stamped (s : psym) : option Z := if is_fun s && (0 <? nargs s) then last s else None.
Lemma table_spec l : table l = Some (flat_map (fun s => match stamped s with Some k => [(k, s)] | None => [] end) l).
Proof.
  induction l as [|s r IH]; [reflexivity|]. cbn [table flat_map]. rewrite printable_gen_spec, IH. unfold stamped.
  destruct (is_fun s), (0 <? nargs s), (last s); reflexivity.
Qed.
Lemma state_of_spec k t : state_of k t = Some (map (fun p => txt (snd p)) (filter (fun p => (fst p =? k)%Z && negb (dunder (snd p))) t)).
Proof.
  induction t as [|[j s] r IH]; [reflexivity|]. cbn [state_of]. rewrite IH, visible_gen_spec. cbn [filter fst snd].
  destruct (j =? k)%Z, (dunder s); reflexivity.
Qed.
Lemma states_spec t n : states t n = Some (map (fun m => map (fun p => txt (snd p)) (filter (fun p => (fst p =? Z.of_nat m)%Z && negb (dunder (snd p))) t)) (seq 0 n)).
Proof.
  induction n as [|n IH]; [reflexivity|]. cbn [states]. rewrite IH, state_of_spec. rewrite seq_S, map_app. reflexivity.
Qed.
Definition state_atoms (shown : list psym) (k : nat) : list string :=
  map txt (filter (fun s => match stamped s with Some j => (j =? Z.of_nat k)%Z | None => false end && negb (dunder s)) shown).
Lemma filter_table shown k :
  map (fun p => txt (snd p)) (filter (fun p => (fst p =? Z.of_nat k)%Z && negb (dunder (snd p)))
      (flat_map (fun s => match stamped s with Some j => [(j, s)] | None => [] end) shown)) = state_atoms shown k.
Proof.
  unfold state_atoms. induction shown as [|s r IH]; [reflexivity|]. cbn [flat_map]. rewrite filter_app, map_app, IH. cbn [filter].
  destruct (stamped s) as [j|]; cbn [filter fst snd app map]; [|reflexivity].
  destruct ((j =? Z.of_nat k)%Z && negb (dunder s)); reflexivity.
Qed.
Theorem print_model_spec shown h : print_model shown h = Printed (map (state_atoms shown) (seq 0 (S h))).
Proof.
  unfold print_model. rewrite table_spec, nstates_gen_spec, states_spec. rewrite Nat2Z.id. f_equal.
  apply map_ext. intros k. apply filter_table.
Qed.
Lemma in_state_atoms shown k x : In x (state_atoms shown k) <->
  exists s, In s shown /\ is_fun s = true /\ 0 < nargs s /\ last s = Some (Z.of_nat k) /\ dunder s = false /\ txt s = x.
Proof.
  unfold state_atoms. rewrite in_map_iff. split.
  - intros (s & <- & Hs). apply filter_In in Hs as [Hin Hc]. apply andb_true_iff in Hc as [Hst Hd].
    unfold stamped in Hst. destruct (is_fun s) eqn:F; [|discriminate]. destruct (0 <? nargs s) eqn:N; [|discriminate]. cbn [andb] in Hst.
    destruct (last s) as [j|] eqn:L; [|discriminate]. apply Z.eqb_eq in Hst. subst j. apply Nat.ltb_lt in N. apply negb_true_iff in Hd.
    exists s. repeat split; assumption.
  - intros (s & Hin & F & N & L & D & <-). exists s. split; [reflexivity|]. apply filter_In. split; [assumption|].
    unfold stamped. rewrite F, L. apply Nat.ltb_lt in N. rewrite N, D. cbn. now rewrite Z.eqb_refl.
Qed.
