(* The two theory layers together: the rules HeadFormula.translate adds at a state carry, in their bodies, the literals the body theory has cached
   for the formulas ~ (d < x) / ~ (n > x).  In every assignment that violates no constraint of the body theory (BodyTheoryFull: ok_cls, ok_ext, at a
   stable point of the invariant) those literals have the LTLf values of their formulas, so the rules - read with their literals - are jointly
   HT-satisfied exactly if the shifted head formula is. *)
From Coq Require Import List Bool Arith ZArith Lia.
Require Import GenPrelude TheoryPrelude FromTheory FormPrelude FromHeadForm TheorySem BodyTheoryFull HeadShift HeadDefs HeadForm HeadRulesProofs Leaf_dynamic.
Import ListNotations.
Section Link.
Variable A : Type.
Variable A_eq_dec : forall a b : A, {a = b} + {a <> b}.
Variable h : nat.
Variable s : st A.
Hypothesis I : Inv A A_eq_dec h [] s.
Hypothesis W : Wf A A_eq_dec s.
Variable T : HeadShift.trace A.
Variable v : nat -> bool.
Hypothesis Oc : ok_cls A T v s.
Hypothesis Oe : ok_ext A A_eq_dec v s.
(* a rule as it is added: head atoms, and one literal per body formula (the literal cached for that formula at the state of the rule) *)
Definition lits_of (k : nat) (bs : list (bf A)) (ls : list (lit A)) : Prop := Forall2 (fun b l => cached A A_eq_dec s b k l) bs ls.
Definition added_rule_sat (H : HeadShift.trace A) (k : nat) (hd : list A) (ls : list (lit A)) : bool :=
  existsb (fun a => H k a) hd || existsb (fun l => negb (ev A T v l)) ls.
Theorem added_rule_meaning (H : HeadShift.trace A) k (r : hrule A) ls : lits_of k (bd A r) ls -> added_rule_sat H k (hd A r) ls = rule_sat A h H T k r.
Proof.
  intros F. unfold added_rule_sat, rule_sat. f_equal. induction F as [|b l bs ls C F IH]; cbn [existsb]; [reflexivity|].
  now rewrite IH, (value_full A A_eq_dec (reduce_eqs_hold A) h s I W T v Oc Oe b k l C).
Qed.
Theorem added_rules_mean_shifted_formula (H : HeadShift.trace A) (inbase : A -> bool) (F : hf A) d k rs (lss : list (list (lit A))) :
  (forall a, inbase a = false -> H k a = false) -> rules_at A inbase F d = Some rs -> Forall2 (fun r ls => lits_of k (bd A r) ls) rs lss ->
  forallb (fun p => added_rule_sat H k (hd A (fst p)) (snd p)) (List.combine rs lss) = ssat A h H T (shift A F d) k.
Proof.
  intros NB E F2. rewrite <- (rules_at_sat A h H T inbase F d k rs NB E). clear E.
  induction F2 as [|r ls rs lss L F2 IH]; cbn [List.combine forallb]; [reflexivity|]. cbn [fst snd]. now rewrite IH, (added_rule_meaning H k r ls L).
Qed.
End Link.
