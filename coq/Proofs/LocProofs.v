(* str_location: the rendering has the documented shape and names the location faithfully - begin and end can be read back from it. *)
From Coq Require Import List Bool Arith Lia.
Import ListNotations.
Require Import GenPrelude FromLoc Loc.
Theorem str_location_shape b e : str_location b e = loc_shape b e.
Proof.
  (* leaf lemma over the regenerated function: the three comparisons decide everything *)
  unfold str_location, str_location_gen, loc_shape, head_of.
  destruct (pfile b =? pfile e) eqn:F; destruct (pline b =? pline e) eqn:L; destruct (pcol b =? pcol e) eqn:C; reflexivity.
Qed.
(* reading the end position back *)
Definition read_back (l : list tok) : option (pos * pos) :=
  match l with
  | [LFile f; LColon; LNum l1; LColon; LNum c1] => Some (Build_pos f l1 c1, Build_pos f l1 c1)
  | [LFile f; LColon; LNum l1; LColon; LNum c1; LDash; LNum c2] => Some (Build_pos f l1 c1, Build_pos f l1 c2)
  | [LFile f; LColon; LNum l1; LColon; LNum c1; LDash; LNum l2; LColon; LNum c2] => Some (Build_pos f l1 c1, Build_pos f l2 c2)
  | [LFile f; LColon; LNum l1; LColon; LNum c1; LDash; LFile f2; LColon; LNum l2; LColon; LNum c2] => Some (Build_pos f l1 c1, Build_pos f2 l2 c2)
  | _ => None
  end.
Theorem str_location_faithful b e : read_back (str_location b e) = Some (b, e).
Proof.
  rewrite str_location_shape. unfold loc_shape, head_of. destruct b as [f l c], e as [f2 l2 c2]. cbn [pfile pline pcol].
  destruct (f =? f2) eqn:F; cbn [negb app read_back]; [|reflexivity].
  apply Nat.eqb_eq in F. subst f2.
  destruct (l =? l2) eqn:L; cbn [negb app read_back]; [|reflexivity].
  apply Nat.eqb_eq in L. subst l2.
  destruct (c =? c2) eqn:C; cbn [negb app read_back]; [|reflexivity].
  apply Nat.eqb_eq in C. subst c2. reflexivity.
Qed.
Corollary str_location_injective b e b' e' : str_location b e = str_location b' e' -> b = b' /\ e = e'.
Proof.
  intros E. pose proof (str_location_faithful b e) as R. rewrite E, str_location_faithful in R. injection R as -> ->. split; reflexivity.
Qed.
