(* str_location: the rendering has the documented shape and names the location faithfully - begin and end can be read back from it. *)
From Coq Require Import List Bool Arith Lia.
Import ListNotations.
Require Import Loc.
Definition head_of (b : pos) : list tok := [TFile (pfile b); TColon; TNum (pline b); TColon; TNum (pcol b)].
(* the documented shape: file:line:col, then the part of the end position from the first component that differs on *)
Definition shape (b e : pos) : list tok :=
  head_of b ++
  (if negb (pfile b =? pfile e) then [TDash; TFile (pfile e); TColon; TNum (pline e); TColon; TNum (pcol e)]
   else if negb (pline b =? pline e) then [TDash; TNum (pline e); TColon; TNum (pcol e)]
   else if negb (pcol b =? pcol e) then [TDash; TNum (pcol e)]
   else []).
Theorem str_location_shape b e : str_location b e = shape b e.
Proof.
  unfold str_location, shape, head_of.
  destruct (pfile b =? pfile e) eqn:F; destruct (pline b =? pline e) eqn:L; destruct (pcol b =? pcol e) eqn:C; reflexivity.
Qed.
(* reading the end position back *)
Definition read_back (l : list tok) : option (pos * pos) :=
  match l with
  | [TFile f; TColon; TNum l1; TColon; TNum c1] => Some (Build_pos f l1 c1, Build_pos f l1 c1)
  | [TFile f; TColon; TNum l1; TColon; TNum c1; TDash; TNum c2] => Some (Build_pos f l1 c1, Build_pos f l1 c2)
  | [TFile f; TColon; TNum l1; TColon; TNum c1; TDash; TNum l2; TColon; TNum c2] => Some (Build_pos f l1 c1, Build_pos f l2 c2)
  | [TFile f; TColon; TNum l1; TColon; TNum c1; TDash; TFile f2; TColon; TNum l2; TColon; TNum c2] => Some (Build_pos f l1 c1, Build_pos f2 l2 c2)
  | _ => None
  end.
Theorem str_location_faithful b e : read_back (str_location b e) = Some (b, e).
Proof.
  rewrite str_location_shape. unfold shape, head_of. destruct b as [f l c], e as [f2 l2 c2]. cbn [pfile pline pcol].
  destruct (f =? f2) eqn:F; cbn [negb app read_back]; [|reflexivity].
  apply Nat.eqb_eq in F. subst f2.
  destruct (l =? l2) eqn:L; cbn [negb app read_back]; [|reflexivity].
  apply Nat.eqb_eq in L. subst l2.
  destruct (c =? c2) eqn:C; cbn [negb app read_back]; [|reflexivity].
  apply Nat.eqb_eq in C. subst c2. reflexivity.
Qed.
Corollary str_location_injective b e b' e' : str_location b e = str_location b' e' -> b = b' /\ e = e'.
Proof.
  intros E. pose proof (str_location_faithful b e) as R. rewrite E, str_location_faithful in R. injection R as -> ->. split; reflexivity.
Qed.
