(* the ranges of the domain rule cover every atom that a shifted head formula can have in a rule head *)
From Coq Require Import List Bool Arith Lia.
Require Import GenPrelude TheoryPrelude FormPrelude FromHeadRanges HeadShift HeadRanges.
Import ListNotations.
Section Cover.
Variable A : Type.
Notation hf := (hf A).
Notation ranges := (ranges A).
Notation head_atoms := (head_atoms A).
Notation shift := (shift A).
Lemma incr_next_spec n : incr_next n = (n, Some n).  Proof. reflexivity. Qed.
Lemma incr_until_spec : incr_until = (0, None).  Proof. reflexivity. Qed.
Lemma radd_none r a : radd r a None = (fst r + a, None).
Proof. unfold radd. now destruct (snd r). Qed.
Lemma ranges_unbounded : forall p lo a r, In (a, r) (ranges p (lo, None)) -> snd r = None.
Proof.
  induction p as [a0|b|x IH|n w x IH|u l IHl r0 IHr|u r0 IHr|x IHx y IHy|x IHx y IHy]; intros lo a r I1; cbn [HeadRanges.ranges] in I1.
  - destruct I1 as [E|[]]. now inversion E.
  - destruct I1.
  - destruct I1.
  - rewrite incr_next_spec in I1. unfold radd in I1. cbn [fst snd] in I1. now apply (IH _ _ _ I1).
  - rewrite incr_until_spec in I1. unfold radd in I1. cbn [fst snd] in I1. apply in_app_or in I1 as [I1|I1]; [now apply (IHl _ _ _ I1)|now apply (IHr _ _ _ I1)].
  - rewrite incr_until_spec in I1. unfold radd in I1. cbn [fst snd] in I1. now apply (IHr _ _ _ I1).
  - apply in_app_or in I1 as [I1|I1]; [now apply (IHx _ _ _ I1)|now apply (IHy _ _ _ I1)].
  - apply in_app_or in I1 as [I1|I1]; [now apply (IHx _ _ _ I1)|now apply (IHy _ _ _ I1)].
Qed.
Definition fits (lo : nat) (ho : option nat) (d : nat) (r : rng) : Prop :=
  fst r <= lo + d /\ match snd r, ho with Some x, Some hi => hi + d <= x | Some _, None => False | None, _ => True end.
Theorem ranges_cover_gen : forall p lo ho d a, In a (head_atoms (shift p d)) -> exists r, In (a, r) (ranges p (lo, ho)) /\ fits lo ho d r.
Proof.
  induction p as [a0|b|x IH|n w x IH|u l IHl r0 IHr|u r0 IHr|x IHx y IHy|x IHx y IHy]; intros lo ho d a I1.
  - destruct d as [|d]; cbn [HeadShift.shift HeadRanges.head_atoms] in I1; [|destruct I1]. destruct I1 as [<-|[]].
    exists (lo, ho). split; [now left|]. unfold fits. cbn [fst snd]. split; [lia|]. destruct ho; [lia|exact I].
  - cbn [HeadShift.shift HeadRanges.head_atoms] in I1. destruct I1.
  - cbn [HeadShift.shift HeadRanges.head_atoms] in I1. destruct I1.
  - cbn [HeadShift.shift] in I1. destruct (n <=? d) eqn:E; [|cbn [HeadRanges.head_atoms] in I1; destruct I1]. apply Nat.leb_le in E.
    cbn [HeadRanges.ranges]. rewrite incr_next_spec. unfold radd. cbn [fst snd].
    destruct (IH (lo + n) (match ho with Some x => Some (x + n) | None => None end) (d - n) a I1) as [r [Ir [F1 F2]]].
    exists r. split; [exact Ir|]. unfold fits. split; [lia|]. destruct (snd r), ho; auto; lia.
  - cbn [HeadRanges.ranges]. rewrite incr_until_spec. cbn [fst snd]. rewrite radd_none. cbn [fst]. rewrite Nat.add_0_r.
    assert (exists r, In (a, r) (ranges l (lo, None) ++ ranges r0 (lo, None)) /\ fst r <= lo + d) as [r [Ir Fr]].
    { revert I1. induction d as [|e IHe]; intros I1; rewrite (shift_un_unfold A) in I1; unfold outer, inner in I1.
      - assert (In a (head_atoms (shift r0 0)) \/ In a (head_atoms (shift l 0))) as [I2|I2].
        { destruct u; cbn [HeadRanges.head_atoms] in I1; apply in_app_or in I1 as [I1|I1]; auto; apply in_app_or in I1 as [I1|I1]; auto; destruct I1. }
        + destruct (IHr lo None 0 a I2) as [r [Ir [F1 _]]]. exists r. split; [apply in_or_app; now right|exact F1].
        + destruct (IHl lo None 0 a I2) as [r [Ir [F1 _]]]. exists r. split; [apply in_or_app; now left|exact F1].
      - assert (In a (head_atoms (shift r0 (S e))) \/ In a (head_atoms (shift l (S e))) \/ In a (head_atoms (shift (HUn A u l r0) e))) as [I2|[I2|I2]].
        { destruct u; cbn [HeadRanges.head_atoms] in I1; apply in_app_or in I1 as [I1|I1]; auto; apply in_app_or in I1 as [I1|I1]; auto. }
        + destruct (IHr lo None (S e) a I2) as [r [Ir [F1 _]]]. exists r. split; [apply in_or_app; now right|exact F1].
        + destruct (IHl lo None (S e) a I2) as [r [Ir [F1 _]]]. exists r. split; [apply in_or_app; now left|exact F1].
        + destruct (IHe I2) as [r [Ir F1]]. exists r. split; [exact Ir|lia]. }
    exists r. split; [exact Ir|]. split; [exact Fr|].
    assert (snd r = None) as -> by (apply in_app_or in Ir as [Ir|Ir]; eapply ranges_unbounded; eauto). exact I.
  - cbn [HeadRanges.ranges]. rewrite incr_until_spec. cbn [fst snd]. rewrite radd_none. cbn [fst]. rewrite Nat.add_0_r.
    assert (exists r, In (a, r) (ranges r0 (lo, None)) /\ fst r <= lo + d) as [r [Ir Fr]].
    { revert I1. induction d as [|e IHe]; intros I1; rewrite (shift_un1_unfold A) in I1; unfold outer in I1.
      - assert (In a (head_atoms (shift r0 0))) as I2.
        { destruct u; cbn [HeadRanges.head_atoms] in I1; apply in_app_or in I1 as [I1|I1]; auto; destruct I1. }
        destruct (IHr lo None 0 a I2) as [r [Ir [F1 _]]]. exists r. split; [exact Ir|exact F1].
      - assert (In a (head_atoms (shift r0 (S e))) \/ In a (head_atoms (shift (HUn1 A u r0) e))) as [I2|I2].
        { destruct u; cbn [HeadRanges.head_atoms] in I1; apply in_app_or in I1 as [I1|I1]; auto. }
        + destruct (IHr lo None (S e) a I2) as [r [Ir [F1 _]]]. exists r. split; [exact Ir|exact F1].
        + destruct (IHe I2) as [r [Ir F1]]. exists r. split; [exact Ir|lia]. }
    exists r. split; [exact Ir|]. split; [exact Fr|]. assert (snd r = None) as -> by (eapply ranges_unbounded; eauto). exact I.
  - cbn [HeadShift.shift HeadRanges.head_atoms HeadRanges.ranges] in *. apply in_app_or in I1 as [I1|I1].
    + destruct (IHx lo ho d a I1) as [r [Ir F]]. exists r. split; [apply in_or_app; now left|exact F].
    + destruct (IHy lo ho d a I1) as [r [Ir F]]. exists r. split; [apply in_or_app; now right|exact F].
  - cbn [HeadShift.shift HeadRanges.head_atoms HeadRanges.ranges] in *. apply in_app_or in I1 as [I1|I1].
    + destruct (IHx lo ho d a I1) as [r [Ir F]]. exists r. split; [apply in_or_app; now left|exact F].
    + destruct (IHy lo ho d a I1) as [r [Ir F]]. exists r. split; [apply in_or_app; now right|exact F].
Qed.
(* the element of a head theory atom starts with the range (0, 0): an atom in a head position of the formula shifted by d lies within one of
   its ranges at distance d - the domain rule  a(t) : lo <= t - S <= hi :- aux(S), __false(t)  has introduced it into the atom base *)
Corollary ranges_cover : forall p d a, In a (head_atoms (shift p d)) -> exists r, In (a, r) (ranges p (0, Some 0)) /\ within d r.
Proof.
  intros p d a I1. destruct (ranges_cover_gen p 0 (Some 0) d a I1) as [r [Ir [F1 F2]]]. exists r. split; [exact Ir|]. unfold within. split; [lia|].
  destruct (snd r); [lia|exact I].
Qed.
End Cover.
