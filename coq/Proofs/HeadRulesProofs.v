(* Proofs about Model/HeadDefs.v.  From a head formula to the rules HeadFormula.translate adds at one step (theory/head.py): the formula object built through the REGENERATED
   create_formula table of heads, shifted (HeadShift.shift), unfolded into clauses (HeadForm.unfold), every clause turned into one rule
   (ClauseToRule): atoms of the current state go to the head (when they are in the atom base), every shifted part goes to the body as the
   negation of a BODY formula (HeadFormulaToBodyFormula below Previous / Next) whose literal comes from the body theory.
   Executable (extracted, driver command `hds`): the correspondence compares the clauses and rules with what telingo does, step by step.
   Theorems: the body formula of a shifted part has the classical value the clause semantics (HeadShift.ssat) gives it, and a rule is
   HT-satisfied exactly if its clause is. *)
From Coq Require Import List Bool Arith ZArith Lia String.
Require Import GenPrelude TheoryPrelude FromTheory FormPrelude FromBodyForm FromHeadForm HT TEL TELext PrefixSpec Laws TheorySem BodyForm BodyTheoryFull
               TheoryBuild TheoryLink HeadShift HeadDefs HeadForm.
Import ListNotations.
Local Open Scope string_scope.
Local Open Scope nat_scope.
Section HeadRulesProofs.
Variable A : Type.
Notation hf := (hf A).
Notation sf := (sf A).
Notation bf := (bf A).
Notation h2b := (h2b A).
Notation body_formula := (body_formula A).
Notation rule_of := (rule_of A).
Notation rules_at := (rules_at A).
Notation clauses_at := (clauses_at A).
Notation hrule := (hrule A).
Notation hd := (hd A).
Notation bd := (bd A).
(* ---------------- semantics ---------------- *)
Variable h : nat.
Lemma embf_h2b : forall p b, h2b p = Some b -> embf A b = emb A p.
Proof.
  induction p as [a|c|x IH|n w x IH|u l IHl r IHr|u r IHr|x IHx y IHy|x IHx y IHy]; intros b E; cbn [h2b] in E.
  - now inversion E.
  - now inversion E.
  - destruct (h2b x) as [bx|]; [|discriminate]. inversion E; subst b. cbn [embf emb]. now rewrite (IH bx eq_refl).
  - destruct (h2b x) as [bx|]; [|discriminate]. inversion E; subst b. cbn [embf emb]. now rewrite (IH bx eq_refl).
  - unfold h2b_until_op_gen, h2b_until_future_weak_gen in E. destruct (h2b l) as [bl|], (h2b r) as [br|]; destruct u; cbn in E; try discriminate;
      inversion E; subst b; cbn [embf emb]; now rewrite (IHl bl eq_refl), (IHr br eq_refl).
  - unfold h2b_until_op_gen, h2b_until_future_weak_gen in E. destruct (h2b r) as [br|]; destruct u; cbn in E; try discriminate;
      inversion E; subst b; cbn [embf emb]; now rewrite (IHr br eq_refl).
  - unfold h2b_clause_op_gen in E. cbn [bool_of] in E. destruct (h2b x) as [bx|], (h2b y) as [by_|]; try discriminate. inversion E; subst b. cbn [embf emb].
    now rewrite (IHx bx eq_refl), (IHy by_ eq_refl).
  - unfold h2b_clause_op_gen in E. cbn [bool_of] in E. destruct (h2b x) as [bx|], (h2b y) as [by_|]; try discriminate. inversion E; subst b. cbn [embf emb].
    now rewrite (IHx bx eq_refl), (IHy by_ eq_refl).
Qed.
Lemma h2b_tel_only : forall p b, h2b p = Some b -> tel_only A b = true.
Proof.
  induction p as [a|c|x IH|n w x IH|u l IHl r IHr|u r IHr|x IHx y IHy|x IHx y IHy]; intros b E; cbn [HeadDefs.h2b] in E.
  - now inversion E.
  - now inversion E.
  - destruct (HeadDefs.h2b A x) as [bx|]; [|discriminate]. inversion E; subst b. cbn [tel_only]. now apply IH.
  - destruct (HeadDefs.h2b A x) as [bx|]; [|discriminate]. inversion E; subst b. cbn [tel_only]. now apply IH.
  - unfold h2b_until_op_gen, h2b_until_future_weak_gen in E. destruct (HeadDefs.h2b A l) as [bl|], (HeadDefs.h2b A r) as [br|]; destruct u; cbn in E; try discriminate;
      inversion E; subst b; cbn [tel_only]; now rewrite (IHl bl eq_refl), (IHr br eq_refl).
  - unfold h2b_until_op_gen, h2b_until_future_weak_gen in E. destruct (HeadDefs.h2b A r) as [br|]; destruct u; cbn in E; try discriminate;
      inversion E; subst b; cbn [tel_only]; now apply IHr.
  - unfold h2b_clause_op_gen in E. cbn [bool_of] in E. destruct (HeadDefs.h2b A x) as [bx|], (HeadDefs.h2b A y) as [by_|]; try discriminate. inversion E; subst b. cbn [tel_only].
    now rewrite (IHx bx eq_refl), (IHy by_ eq_refl).
  - unfold h2b_clause_op_gen in E. cbn [bool_of] in E. destruct (HeadDefs.h2b A x) as [bx|], (HeadDefs.h2b A y) as [by_|]; try discriminate. inversion E; subst b. cbn [tel_only].
    now rewrite (IHx bx eq_refl), (IHy by_ eq_refl).
Qed.
Lemma h2b_total : forall p, exists b, h2b p = Some b.
Proof.
  induction p as [a|c|x [bx IH]|n w x [bx IH]|u l [bl IHl] r [br IHr]|u r [br IHr]|x [bx IHx] y [by_ IHy]|x [bx IHx] y [by_ IHy]]; cbn [h2b].
  - eexists; reflexivity.
  - eexists; reflexivity.
  - rewrite IH. eexists; reflexivity.
  - rewrite IH. eexists; reflexivity.
  - rewrite IHl, IHr. unfold h2b_until_op_gen, h2b_until_future_weak_gen. destruct u; cbn; eexists; reflexivity.
  - rewrite IHr. unfold h2b_until_op_gen, h2b_until_future_weak_gen. destruct u; cbn; eexists; reflexivity.
  - rewrite IHx, IHy. unfold h2b_clause_op_gen. cbn. eexists; reflexivity.
  - rewrite IHx, IHy. unfold h2b_clause_op_gen. cbn. eexists; reflexivity.
Qed.
(* HeadFormulaToBodyFormula keeps the (classical, LTLf) value *)
Theorem h2b_value (T : HeadShift.trace A) p b : h2b p = Some b -> forall k, BodyTheoryFull.lsat A h T b k = csat A h T p k.
Proof. intros E k. now rewrite (lsat_embf A h T b (h2b_tel_only p b E) k), (embf_h2b p b E), (emb_csat A h T p k). Qed.
(* the body formula of a shifted part is false exactly if the part holds (it is the negation that enters the rule body) *)
Theorem body_formula_value (H T : HeadShift.trace A) g b : body_formula g = Some b -> forall k, BodyTheoryFull.lsat A h T b k = negb (ssat A h H T g k).
Proof.
  intros E k. destruct g as [a|x y|x y|d x|n w x]; cbn [body_formula] in E; try discriminate.
  - destruct d as [|d]; destruct (h2b x) as [bx|] eqn:Ex; try discriminate; inversion E; subst b; cbn [BodyTheoryFull.lsat HeadShift.ssat].
    + cbn [Nat.leb]. now rewrite Nat.sub_0_r, (h2b_value T x bx Ex).
    + unfold shifted_part_is_strong_gen. cbn [negb]. destruct (S d <=? k); [now rewrite (h2b_value T x bx Ex)|reflexivity].
  - destruct (h2b x) as [bx|] eqn:Ex; try discriminate; inversion E; subst b; cbn [BodyTheoryFull.lsat HeadShift.ssat].
    destruct (k + n <=? h); [now rewrite (h2b_value T x bx Ex)|reflexivity].
Qed.
(* HT satisfaction of a rule  hd :- F, bd  whose body literals are the (default-negated) literals of the body formulas: some head atom holds
   in H, or some body formula is false in T (negative body literals are evaluated in the total trace) *)
Definition rule_sat (H T : HeadShift.trace A) (k : nat) (r : hrule) : bool :=
  existsb (fun a => H k a) (hd r) || existsb (fun b => negb (BodyTheoryFull.lsat A h T b k)) (bd r).
Theorem rule_sat_clause (H T : HeadShift.trace A) (inbase : A -> bool) k :
  (forall a, inbase a = false -> H k a = false) ->
  forall c r, rule_of inbase c = Some r -> rule_sat H T k r = clause_sat A h H T k c.
Proof.
  intros NB. induction c as [|g c IH]; intros r E; cbn [rule_of] in E.
  - inversion E; subst r. reflexivity.
  - destruct g as [a|x y|x y|d x|n w x]; try discriminate.
    + destruct (rule_of inbase c) as [r0|] eqn:E0; [|discriminate]. inversion E; subst r. specialize (IH r0 eq_refl).
      unfold rule_sat, clause_sat in *. cbn [hd bd existsb HeadShift.ssat]. rewrite <- IH.
      destruct (inbase a) eqn:Ib; cbn [existsb].
      * now rewrite orb_assoc.
      * now rewrite (NB a Ib).
    + destruct (body_formula (SBack A d x)) as [b|] eqn:Eb; [|discriminate]. destruct (rule_of inbase c) as [r0|] eqn:E0; [|discriminate].
      inversion E; subst r. specialize (IH r0 eq_refl). unfold rule_sat, clause_sat in *. cbn [hd bd existsb]. rewrite <- IH.
      rewrite (body_formula_value H T _ b Eb k), negb_involutive.
      destruct (ssat A h H T (SBack A d x) k), (existsb (fun a => H k a) (hd r0)); reflexivity.
    + destruct (body_formula (SFwd A n w x)) as [b|] eqn:Eb; [|discriminate]. destruct (rule_of inbase c) as [r0|] eqn:E0; [|discriminate].
      inversion E; subst r. specialize (IH r0 eq_refl). unfold rule_sat, clause_sat in *. cbn [hd bd existsb]. rewrite <- IH.
      rewrite (body_formula_value H T _ b Eb k), negb_involutive.
      destruct (ssat A h H T (SFwd A n w x) k), (existsb (fun a => H k a) (hd r0)); reflexivity.
Qed.
Lemma all_some_forallb {X} (P : X -> bool) (Q : option X -> bool) (l : list (option X)) (rs : list X) :
  (forall x, Q (Some x) = P x) -> all_some l = Some rs -> forallb P rs = forallb Q l.
Proof.
  intros PQ. revert rs. induction l as [|o l IH]; intros rs E; cbn [all_some] in E.
  - inversion E; subst rs. reflexivity.
  - destruct o as [x|]; [|discriminate]. destruct (all_some l) as [rs0|]; [|discriminate]. inversion E; subst rs. cbn [forallb]. now rewrite PQ, (IH rs0 eq_refl).
Qed.
(* all rules of a step are satisfied exactly if the shifted formula is (and hence, by HeadShift.shift_consequence / HeadComplete, follow from
   and together characterise the head formula) *)
Theorem rules_at_sat (H T : HeadShift.trace A) (inbase : A -> bool) (F : hf) d k rs :
  (forall a, inbase a = false -> H k a = false) -> rules_at inbase F d = Some rs ->
  forallb (rule_sat H T k) rs = ssat A h H T (shift A F d) k.
Proof.
  intros NB E. unfold rules_at, clauses_at in E. rewrite <- (unfold_sat A h H T k (shift A F d)).
  revert rs E. generalize (unfold A (shift A F d)) as cs. induction cs as [|c cs IH]; intros rs E; cbn [map all_some] in E.
  - inversion E; subst rs. reflexivity.
  - destruct (rule_of inbase c) as [r|] eqn:Er; [|discriminate]. destruct (all_some (map (rule_of inbase) cs)) as [rs0|] eqn:E0; [|discriminate].
    inversion E; subst rs. cbn [forallb]. now rewrite (rule_sat_clause H T inbase k NB c r Er), (IH rs0 eq_refl).
Qed.
(* every clause of the unfolding consists of leaves, so a rule exists for it *)
Lemma unfold_leaves : forall g c, In c (unfold A g) -> Forall (fun l => match l with SAnd _ _ _ | SOr _ _ _ => False | _ => True end) c.
Proof.
  induction g as [a|x IHx y IHy|x IHx y IHy|d x|n w x]; intros c I; cbn [unfold] in I.
  - destruct I as [<-|[]]. repeat constructor.
  - unfold unfold_conjunction_concatenates_gen in I. apply in_app_or in I. destruct I; auto.
  - unfold unfold_disjunction_is_product_gen in I. apply in_flat_map in I. destruct I as (c1 & I1 & I2). apply in_map_iff in I2. destruct I2 as (c2 & <- & I2).
    apply Forall_app. split; auto.
  - destruct I as [<-|[]]. repeat constructor.
  - destruct I as [<-|[]]. repeat constructor.
Qed.
Lemma rule_of_leaves inbase : forall c, Forall (fun l => match l with SAnd _ _ _ | SOr _ _ _ => False | _ => True end) c -> exists r, rule_of inbase c = Some r.
Proof.
  induction c as [|g c IH]; intros Fa; cbn [rule_of]; [eexists; reflexivity|]. inversion Fa as [|g' c' Hg Hc]; subst. destruct (IH Hc) as [r0 E0]. rewrite E0.
  destruct g as [a|x y|x y|d x|n w x]; try contradiction.
  - eexists; reflexivity.
  - cbn [body_formula]. destruct (h2b_total x) as [bx Ex]. destruct d; rewrite Ex; eexists; reflexivity.
  - cbn [body_formula]. destruct (h2b_total x) as [bx Ex]. rewrite Ex. eexists; reflexivity.
Qed.
Theorem rules_at_total inbase F d : exists rs, rules_at inbase F d = Some rs.
Proof.
  unfold rules_at, clauses_at. pose proof (unfold_leaves (shift A F d)) as L. revert L. generalize (unfold A (shift A F d)) as cs.
  induction cs as [|c cs IH]; intros L; cbn [map all_some]; [eexists; reflexivity|].
  destruct (rule_of_leaves inbase c (L c (or_introl eq_refl))) as [r Er]. rewrite Er. destruct (IH (fun c' I => L c' (or_intror I))) as [rs Ers]. rewrite Ers.
  eexists; reflexivity.
Qed.
End HeadRulesProofs.
