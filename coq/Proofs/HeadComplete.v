(* Completeness of the head translation (theory/head.py) at the semantic level, complementing HeadShift.shift_consequence:
   the conjunction of the shifted formulas  shift p d  read at the states s+d (d = 0 .. h-s) has, together with any program that is
   closed under cutting a smaller world back to the total one after a state ("splittable": rules whose bodies look at present and past
   and whose heads lie in the present or future), EXACTLY the equilibrium models of the head formula p at its origin state s. *)
From Coq Require Import List Bool Arith Lia.
Require Import HeadShift.
Section HeadComplete.
Variable A : Type.
Variable h : nat.
Notation trace := (trace A).
Notation hf := (hf A).
Notation csat := (csat A h).
Notation hsat := (hsat A h).
Notation ssat := (ssat A h).
Notation shift := (shift A).
Notation tle := (tle A).
(* the here-world only matters from the state of evaluation on *)
Lemma fut_ext_from u sx sy sx' sy' : forall d k, (forall j, k <= j -> sx j = sx' j) -> (forall j, k <= j -> sy j = sy' j) ->
  fut u sx sy d k = fut u sx' sy' d k.
Proof.
  induction d as [|d IH]; intros k Ex Ey; cbn [fut]; [apply Ey; lia|].
  rewrite (Ex k), (Ey k) by lia. rewrite (IH (S k)); [reflexivity| |]; intros j Hj; [apply Ex|apply Ey]; lia.
Qed.
Lemma hsat_from (H H' T : trace) p : forall k, (forall t a, k <= t -> H t a = H' t a) -> hsat H T p k = hsat H' T p k.
Proof.
  induction p as [a|b|x IH|n w x IH|u l IHl r IHr|u r IHr|x IHx y IHy|x IHx y IHy]; intros k E; cbn [HeadShift.hsat]; try reflexivity.
  - apply E; lia.
  - destruct (k + n <=? h); [|reflexivity]. apply IH. intros t a Ht. apply E. lia.
  - apply fut_ext_from; intros j Hj; [apply IHl|apply IHr]; intros t a Ht; apply E; lia.
  - apply fut_ext_from; intros j Hj; [reflexivity|apply IHr]; intros t a Ht; apply E; lia.
  - rewrite (IHx k E), (IHy k E). reflexivity.
  - rewrite (IHx k E), (IHy k E). reflexivity.
Qed.
Lemma fut_same u sx sy sx' sy' : forall d k, (forall j, sx j = sx' j) -> (forall j, sy j = sy' j) -> fut u sx sy d k = fut u sx' sy' d k.
Proof. intros d k Ex Ey. apply fut_ext_from; intros j _; auto. Qed.
Lemma hsat_total T p : forall k, hsat T T p k = csat T p k.
Proof.
  induction p as [a|b|x IH|n w x IH|u l IHl r IHr|u r IHr|x IHx y IHy|x IHx y IHy]; intros k; cbn [HeadShift.hsat HeadShift.csat]; try reflexivity.
  - destruct (k + n <=? h); [apply IH|reflexivity].
  - apply fut_same; auto.
  - apply fut_same; auto.
  - now rewrite IHx, IHy.
  - now rewrite IHx, IHy.
Qed.
Lemma hsat_agree_future (H T : trace) p k : (forall t a, k <= t -> H t a = T t a) -> hsat H T p k = csat T p k.
Proof. intros E. rewrite (hsat_from H T T p k E). apply hsat_total. Qed.
(* a shifted formula looks at the here-world at the current state only *)
Lemma ssat_local (H H' T : trace) g k : (forall a, H k a = H' k a) -> ssat H T g k = ssat H' T g k.
Proof. intros E. induction g as [a|x IHx y IHy|x IHx y IHy|d x|n w x]; cbn [HeadShift.ssat]; try reflexivity; [apply E|now rewrite IHx, IHy|now rewrite IHx, IHy]. Qed.
(* KEY: a here-world that differs from the there-world at ONE state s+d only satisfies the head formula at s iff it satisfies the
   formula shifted by d at s+d *)
Theorem single_point (H T : trace) : forall p s d, s + d <= h -> (forall t a, t <> s + d -> H t a = T t a) ->
  hsat H T p s = ssat H T (shift p d) (s + d).
Proof.
  induction p as [a|b|x IH|n w x IH|u l IHl r IHr|u r IHr|x IHx y IHy|x IHx y IHy]; intros s d Hd E.
  - destruct d as [|d]; cbn [HeadShift.shift HeadShift.ssat HeadShift.hsat].
    + now rewrite Nat.add_0_r.
    + assert (S d <=? s + S d = true) as -> by (apply Nat.leb_le; lia). replace (s + S d - S d) with s by lia. cbn [HeadShift.csat]. apply E. lia.
  - cbn [HeadShift.shift HeadShift.ssat HeadShift.hsat]. assert (d <=? s + d = true) as -> by (apply Nat.leb_le; lia). reflexivity.
  - cbn [HeadShift.shift HeadShift.ssat HeadShift.hsat]. assert (d <=? s + d = true) as -> by (apply Nat.leb_le; lia). now replace (s + d - d) with s by lia.
  - cbn [HeadShift.shift HeadShift.hsat]. destruct (n <=? d) eqn:En.
    + apply Nat.leb_le in En. assert (s + n <=? h = true) as -> by (apply Nat.leb_le; lia).
      replace (s + d) with ((s + n) + (d - n)) by lia. apply IH; [lia|]. intros t a Ht. apply E. lia.
    + apply Nat.leb_gt in En. cbn [HeadShift.ssat]. replace (s + d + (n - d)) with (s + n) by lia.
      destruct (s + n <=? h); [|reflexivity]. apply hsat_agree_future. intros t a Ht. apply E. lia.
  - (* until / release with left operand *)
    revert s Hd E. induction d as [|e IHe]; intros s Hd E; rewrite (shift_un_unfold A); unfold outer, inner.
    + rewrite Nat.add_0_r in *. pose proof (IHr s 0 ltac:(lia)) as Rr. pose proof (IHl s 0 ltac:(lia)) as Rl. rewrite Nat.add_0_r in Rr, Rl.
      destruct (Nat.eq_dec s h) as [->|Ne].
      * rewrite (hsat_un_last A). rewrite (Rr E). assert (h + 1 <=? h = false) as N1 by (apply Nat.leb_gt; lia).
        destruct u; cbn [HeadShift.ssat negb]; rewrite N1; [now rewrite andb_false_r, orb_false_r|now rewrite orb_true_r, andb_true_r].
      * rewrite (hsat_un_step A) by lia. rewrite (Rr E), (Rl E). assert (s + 1 <=? h = true) as N1 by (apply Nat.leb_le; lia).
        assert (hsat H T (HUn A u l r) (S s) = csat T (HUn A u l r) (s + 1)) as Nx.
        { replace (s + 1) with (S s) by lia. apply hsat_agree_future. intros t a Ht. apply E. lia. }
        destruct u; cbn [HeadShift.ssat negb]; rewrite N1, Nx; reflexivity.
    + rewrite (hsat_un_step A) by lia. replace (s + S e) with (S s + e) in * by lia.
      assert (forall q, (forall s d, s + d <= h -> (forall t a, t <> s + d -> H t a = T t a) -> hsat H T q s = ssat H T (shift q d) (s + d)) ->
                 hsat H T q s = ssat H T (shift q (S e)) (S s + e)) as Sh.
      { intros q IHq. replace (S s + e) with (s + S e) by lia. apply IHq; [lia|]. intros t a Ht. apply E. lia. }
      rewrite (Sh r IHr), (Sh l IHl). rewrite (IHe (S s) ltac:(lia) E). destruct u; reflexivity.
  - revert s Hd E. induction d as [|e IHe]; intros s Hd E; rewrite (shift_un1_unfold A); unfold outer.
    + rewrite Nat.add_0_r in *. pose proof (IHr s 0 ltac:(lia)) as Rr. rewrite Nat.add_0_r in Rr.
      destruct (Nat.eq_dec s h) as [->|Ne].
      * rewrite (hsat_un1_last A). rewrite (Rr E). assert (h + 1 <=? h = false) as N1 by (apply Nat.leb_gt; lia).
        destruct u; cbn [HeadShift.ssat negb]; rewrite N1; [now rewrite orb_false_r|now rewrite andb_true_r].
      * rewrite (hsat_un1_step A) by lia. rewrite (Rr E). assert (s + 1 <=? h = true) as N1 by (apply Nat.leb_le; lia).
        assert (hsat H T (HUn1 A u r) (S s) = csat T (HUn1 A u r) (s + 1)) as Nx.
        { replace (s + 1) with (S s) by lia. apply hsat_agree_future. intros t a Ht. apply E. lia. }
        destruct u; cbn [HeadShift.ssat negb]; rewrite N1, Nx; reflexivity.
    + rewrite (hsat_un1_step A) by lia. replace (s + S e) with (S s + e) in * by lia.
      assert (hsat H T r s = ssat H T (shift r (S e)) (S s + e)) as Sh.
      { replace (S s + e) with (s + S e) by lia. apply IHr; [lia|]. intros t a Ht. apply E. lia. }
      rewrite Sh. rewrite (IHe (S s) ltac:(lia) E). destruct u; reflexivity.
  - cbn [HeadShift.shift HeadShift.ssat HeadShift.hsat]. now rewrite (IHx s d Hd E), (IHy s d Hd E).
  - cbn [HeadShift.shift HeadShift.ssat HeadShift.hsat]. now rewrite (IHx s d Hd E), (IHy s d Hd E).
Qed.

(* ---- equilibrium models: the translation is exact for splittable programs ---- *)
Variable U : list A.                                  (* the finite signature *)
Definition supported (X : trace) := forall t a, X t a = true -> In a U /\ t <= h.
Definition tlt (H T : trace) := tle H T /\ exists t a, T t a = true /\ H t a = false.
Definition trunc (H T : trace) (m : nat) : trace := fun t a => if t <=? m then H t a else T t a.
Variable Pi : trace -> trace -> Prop.                (* (H,T) is a temporal HT model of the rest of the program *)
Definition splittable := forall H T m, tle H T -> Pi T T -> Pi H T -> Pi (trunc H T m) T.
Variable p : hf.
Variable s : nat.
Definition translated (H T : trace) := forall d, s + d <= h -> ssat H T (shift p d) (s + d) = true.
Definition orig_eq (T : trace) := Pi T T /\ csat T p s = true /\ forall H, tlt H T -> ~ (Pi H T /\ hsat H T p s = true).
Definition trans_eq (T : trace) := Pi T T /\ translated T T /\ forall H, tlt H T -> ~ (Pi H T /\ translated H T).
Lemma classical_all_shifts T d : s + d <= h -> ssat T T (shift p d) (s + d) = csat T p s.
Proof. intros Hd. rewrite <- (single_point T T p s d Hd (fun _ _ _ => eq_refl)). apply hsat_total. Qed.
(* the first state at which a decidable property holds *)
Lemma first_true (P : nat -> bool) : forall n, (exists t, t <= n /\ P t = true) -> exists m, m <= n /\ P m = true /\ forall t, t < m -> P t = false.
Proof.
  induction n as [|n IH]; intros [t [Ht Pt]].
  - assert (t = 0) as -> by lia. exists 0. repeat split; [lia|exact Pt|intros; lia].
  - destruct (existsb P (seq 0 (S n))) eqn:E.
    + apply existsb_exists in E as [t' [It Pt']]. apply in_seq in It. assert (t' <= n) as Le' by lia. destruct (IH (ex_intro _ t' (conj Le' Pt'))) as [m [Hm [Pm Mn]]].
      exists m. repeat split; [lia|exact Pm|exact Mn].
    + exists (S n). assert (t = S n) as ->.
      { destruct (Nat.eq_dec t (S n)); [assumption|exfalso]. assert (existsb P (seq 0 (S n)) = true) as X; [|congruence].
        apply existsb_exists. exists t. split; [apply in_seq; lia|exact Pt]. }
      repeat split; [lia|exact Pt|]. intros t Ht'. destruct (P t) eqn:Q; [exfalso|reflexivity].
      assert (existsb P (seq 0 (S n)) = true) as X; [|congruence]. apply existsb_exists. exists t. split; [apply in_seq; lia|exact Q].
Qed.
Definition differs (H T : trace) (t : nat) : bool := existsb (fun a => xorb (H t a) (T t a)) U.
Lemma differs_false H T t : tle H T -> supported T -> differs H T t = false -> forall a, H t a = T t a.
Proof.
  intros L S D a. destruct (T t a) eqn:Ta.
  - destruct (S t a Ta) as [Ia _]. destruct (H t a) eqn:Ha; [reflexivity|exfalso].
    assert (differs H T t = true) as X; [|congruence]. apply existsb_exists. exists a. split; [exact Ia|now rewrite Ha, Ta].
  - destruct (H t a) eqn:Ha; [|reflexivity]. apply L in Ha. congruence.
Qed.
Lemma trunc_le H T m : tle H T -> tle (trunc H T m) T.
Proof. intros L t a. unfold trunc. destruct (t <=? m); [apply L|auto]. Qed.
Theorem head_translation_exact (T : trace) : s <= h -> splittable -> supported T -> (orig_eq T <-> trans_eq T).
Proof.
  intros Hs Sp Su. split.
  - intros (PT & Cp & Min). split; [exact PT|]. split; [intros d Hd; now rewrite classical_all_shifts|].
    intros H [L [t0 [a0 [Ta Ha]]]] [PH Tr].
    (* the first state at which H and T differ *)
    destruct (Su t0 a0 Ta) as [Ia Ht0].
    assert (exists t, t <= h /\ differs H T t = true) as Ex.
    { exists t0. split; [exact Ht0|]. apply existsb_exists. exists a0. split; [exact Ia|now rewrite Ha, Ta]. }
    destruct (first_true (differs H T) h Ex) as [m [Hm [Dm Before]]].
    set (H2 := trunc H T m).
    assert (forall t a, t <> m -> H2 t a = T t a) as Only.
    { intros t a Ne. unfold H2, trunc. destruct (t <=? m) eqn:E; [|reflexivity]. apply Nat.leb_le in E.
      apply (differs_false H T t L Su). apply Before. lia. }
    assert (tlt H2 T) as Lt.
    { split; [now apply trunc_le|]. apply existsb_exists in Dm as [a [Ia' X]]. exists m, a. unfold H2, trunc. rewrite Nat.leb_refl.
      destruct (H m a) eqn:Ha', (T m a) eqn:Ta'; try discriminate; [apply L in Ha'; congruence|split; reflexivity]. }
    apply (Min H2 Lt). split; [now apply Sp|].
    destruct (le_lt_dec s m) as [Le|Gt].
    + (* the difference lies at state s + (m - s): single_point *)
      replace m with (s + (m - s)) in Only by lia.
      rewrite (single_point H2 T p s (m - s) ltac:(lia) Only). replace (s + (m - s)) with m by lia.
      rewrite (ssat_local H2 H T (shift p (m - s)) m); [|intros a; unfold H2, trunc; now rewrite Nat.leb_refl].
      replace m with (s + (m - s)) at 2 by lia. apply Tr. lia.
    + (* the difference lies before the origin of the formula *)
      rewrite (hsat_agree_future H2 T p s); [exact Cp|]. intros t a Ht. apply Only. lia.
  - intros (PT & Tr & Min). split; [exact PT|]. split.
    + rewrite <- (classical_all_shifts T 0) by lia. apply Tr. lia.
    + intros H [L W] [PH Hp]. apply (Min H (conj L W)). split; [exact PH|]. intros d Hd. now apply (shift_consequence A h H T L).
Qed.
End HeadComplete.
(* programs whose rules have bodies that look at the present and the past and heads that lie in the present or the future are splittable *)
Section Splittable.
Variable A : Type.
Variable h : nat.
Notation trace := (trace A).
Record rule := { body : trace -> trace -> nat -> bool; head : trace -> trace -> nat -> bool }.
Definition past_body (r : rule) := forall H H' T t, (forall k a, k <= t -> H k a = H' k a) -> body r H T t = body r H' T t.
Definition future_head (r : rule) := forall H H' T t, (forall k a, t <= k -> H k a = H' k a) -> head r H T t = head r H' T t.
Definition mono_body (r : rule) := forall H H' T t, tle A H H' -> body r H T t = true -> body r H' T t = true.
Definition mono_head (r : rule) := forall H H' T t, tle A H H' -> head r H T t = true -> head r H' T t = true.
Variable R : list rule.
Definition PiR (H T : trace) := forall r, In r R -> forall t, t <= h -> (body r H T t = true -> head r H T t = true) /\ (body r T T t = true -> head r T T t = true).
Theorem rules_splittable : (forall r, In r R -> past_body r /\ future_head r /\ mono_body r /\ mono_head r) ->
  forall H T m, tle A H T -> PiR T T -> PiR H T -> PiR (trunc A H T m) T.
Proof.
  intros Wf H T m L PT PH r Ir t Ht. destruct (Wf r Ir) as (Pb & Fh & Mb & Mh). split; [|exact (proj2 (PT r Ir t Ht))].
  intros B. destruct (le_lt_dec t m) as [Le|Gt].
  - (* at and before the cut the truncated world is H *)
    rewrite (Pb (trunc A H T m) H T t) in B.
    + apply (Mh H (trunc A H T m) T t).
      * intros k a. unfold trunc. destruct (k <=? m); [auto|apply L].
      * exact (proj1 (PH r Ir t Ht) B).
    + intros k a Hk. unfold trunc. now assert (k <=? m = true) as -> by (apply Nat.leb_le; lia).
  - (* after the cut the truncated world is T *)
    rewrite (Fh (trunc A H T m) T T t).
    + apply (proj2 (PT r Ir t Ht)). apply (Mb (trunc A H T m) T T t); [|exact B].
      intros k a. unfold trunc. destruct (k <=? m); [apply L|auto].
    + intros k a Hk. unfold trunc. now assert (k <=? m = false) as -> by (apply Nat.leb_gt; lia).
Qed.
(* a head formula is itself an admissible head: it looks at the here-world from its state on, monotonically *)
Lemma fut_mono2 u sx sy sx' sy' d : (forall k, sx k = true -> sx' k = true) -> (forall k, sy k = true -> sy' k = true) ->
  forall k, fut u sx sy d k = true -> fut u sx' sy' d k = true.
Proof. apply fut_mono. Qed.
Lemma hsat_mono (H H' T : trace) : tle A H H' -> forall q k, hsat A h H T q k = true -> hsat A h H' T q k = true.
Proof.
  intros L q. induction q as [a|b|x IH|n w x IH|u l IHl r IHr|u r IHr|x IHx y IHy|x IHx y IHy]; intros k; cbn [HeadShift.hsat]; auto.
  - destruct (k + n <=? h); auto.
  - apply fut_mono2; auto.
  - apply fut_mono2; auto.
  - rewrite !andb_true_iff. intros [? ?]; auto.
  - rewrite !orb_true_iff. intros [?|?]; auto.
Qed.
Theorem head_formula_rule_admissible (b : trace -> trace -> nat -> bool) (q : hf A) :
  past_body {| body := b; head := fun H T t => hsat A h H T q t |} -> mono_body {| body := b; head := fun H T t => hsat A h H T q t |} ->
  let r := {| body := b; head := fun H T t => hsat A h H T q t |} in past_body r /\ future_head r /\ mono_body r /\ mono_head r.
Proof.
  intros Pb Mb r. repeat split; [exact Pb| |exact Mb|].
  - intros H H' T t E. cbn [head r]. apply hsat_from. intros k a Hk. now apply E.
  - intros H H' T t L. cbn [head r]. now apply hsat_mono.
Qed.
End Splittable.
