(* The final part is the always part guarded by &final: a rule of `#program final.` and the same rule in `#program always.` with `&final` added to its
   body are satisfied by the same pairs of traces at every horizon - so they have the same temporal stable models, whatever else the program says.
   (The model of the rewritten program, Model/CoreRun.v, is proved exact for these semantics: Props/C01.v.) *)
From Coq Require Import List Bool Arith Lia.
Require Import HT TEL CoreRun.
Import ListNotations.
Section FinalPart.
Variable A : Type.
Variable h : nat.
Definition as_always (r : srule A) : srule A := {| sp := Always; sh := sh A r; sb := (Pos, BKwF A) :: sb A r |}.
Lemma kwf_tsat H T k : k <= h -> tsat A h H T (batom_tf A (BKwF A)) k = (k =? h).
Proof.
  intros Hk. cbn [batom_tf tsat]. destruct (k + 1 <=? h) eqn:E.
  - apply Nat.leb_le in E. symmetry. apply Nat.eqb_neq. lia.
  - apply Nat.leb_gt in E. symmetry. apply Nat.eqb_eq. lia.
Qed.
Lemma kwf_lsat T k : k <= h -> lsat A h T (batom_tf A (BKwF A)) k = (k =? h).
Proof.
  intros Hk. cbn [batom_tf lsat]. destruct (k + 1 <=? h) eqn:E.
  - apply Nat.leb_le in E. symmetry. apply Nat.eqb_neq. lia.
  - apply Nat.leb_gt in E. symmetry. apply Nat.eqb_eq. lia.
Qed.
Lemma rule_at H T (r : srule A) k : k <= h ->
  tsat A h H T (rule_tf A (as_always r)) k = if k =? h then tsat A h H T (rule_tf A r) k else true.
Proof.
  intros Hk. unfold rule_tf, as_always. cbn [sb sh body_tf sgn_tf tsat lsat]. rewrite (kwf_tsat H T k Hk), (kwf_lsat T k Hk).
  destruct (k =? h); cbn [andb implb]; reflexivity.
Qed.
Theorem final_part_is_always_with_final (P : list (srule A)) (r : srule A) : sp A r = Final -> forall H T,
  tmodel A h (r :: P) H T <-> tmodel A h (as_always r :: P) H T.
Proof.
  intros Fr H T. unfold tmodel. split; intros M r0 k [<-|I0] Hk Ad.
  - rewrite (rule_at H T r k Hk). destruct (k =? h) eqn:E; [|reflexivity]. apply (M r k (or_introl eq_refl) Hk). rewrite Fr. cbn. exact E.
  - apply (M r0 k (or_intror I0) Hk Ad).
  - rewrite Fr in Ad. cbn in Ad. pose proof (M (as_always r) k (or_introl eq_refl) Hk eq_refl) as R. rewrite (rule_at H T r k Hk), Ad in R. exact R.
  - apply (M r0 k (or_intror I0) Hk Ad).
Qed.
Corollary final_part_same_stable_models (P : list (srule A)) (r : srule A) : sp A r = Final -> forall T, tsm A h (r :: P) T <-> tsm A h (as_always r :: P) T.
Proof.
  intros Fr T. unfold tsm. rewrite (final_part_is_always_with_final P r Fr T T). split; intros [M Min]; (split; [exact M|]); intros H S MH; apply (Min H S);
    now apply (final_part_is_always_with_final P r Fr H T).
Qed.
(* likewise: the initial part is the always part guarded by &initial, the dynamic part the always part guarded by not &initial *)
Definition initial_as_always (r : srule A) : srule A := {| sp := Always; sh := sh A r; sb := (Pos, BKwI A) :: sb A r |}.
Definition dynamic_as_always (r : srule A) : srule A := {| sp := Always; sh := sh A r; sb := (Neg, BKwI A) :: sb A r |}.
Lemma kwi_tsat H T k : tsat A h H T (batom_tf A (BKwI A)) k = (k =? 0).
Proof. cbn [batom_tf tsat]. destruct k as [|k]; reflexivity. Qed.
Lemma kwi_lsat T k : lsat A h T (batom_tf A (BKwI A)) k = (k =? 0).
Proof. cbn [batom_tf lsat]. destruct k as [|k]; reflexivity. Qed.
Lemma initial_rule_at H T (r : srule A) k : tsat A h H T (rule_tf A (initial_as_always r)) k = if k =? 0 then tsat A h H T (rule_tf A r) k else true.
Proof.
  unfold rule_tf, initial_as_always. cbn [sb sh body_tf sgn_tf tsat lsat]. rewrite (kwi_tsat H T k), (kwi_lsat T k). destruct (k =? 0); cbn [andb implb]; reflexivity.
Qed.
Lemma dynamic_rule_at H T (r : srule A) k : tsat A h H T (rule_tf A (dynamic_as_always r)) k = if k =? 0 then true else tsat A h H T (rule_tf A r) k.
Proof.
  unfold rule_tf, dynamic_as_always. cbn [sb sh body_tf sgn_tf TNot tsat lsat]. rewrite (kwi_tsat H T k), (kwi_lsat T k). destruct (k =? 0); cbn [andb implb negb]; reflexivity.
Qed.
Theorem initial_part_is_always_with_initial (P : list (srule A)) (r : srule A) : sp A r = Initial -> forall H T,
  tmodel A h (r :: P) H T <-> tmodel A h (initial_as_always r :: P) H T.
Proof.
  intros Fr H T. unfold tmodel. split; intros M r0 k [<-|I0] Hk Ad.
  - rewrite (initial_rule_at H T r k). destruct (k =? 0) eqn:E; [|reflexivity]. apply (M r k (or_introl eq_refl) Hk). rewrite Fr. cbn. exact E.
  - apply (M r0 k (or_intror I0) Hk Ad).
  - rewrite Fr in Ad. cbn in Ad. pose proof (M (initial_as_always r) k (or_introl eq_refl) Hk eq_refl) as R. rewrite (initial_rule_at H T r k), Ad in R. exact R.
  - apply (M r0 k (or_intror I0) Hk Ad).
Qed.
Theorem dynamic_part_is_always_without_initial (P : list (srule A)) (r : srule A) : sp A r = Dynamic -> forall H T,
  tmodel A h (r :: P) H T <-> tmodel A h (dynamic_as_always r :: P) H T.
Proof.
  intros Fr H T. unfold tmodel. split; intros M r0 k [<-|I0] Hk Ad.
  - rewrite (dynamic_rule_at H T r k). destruct (k =? 0) eqn:E; [reflexivity|]. apply (M r k (or_introl eq_refl) Hk). rewrite Fr. destruct k as [|k']; [discriminate E|reflexivity].
  - apply (M r0 k (or_intror I0) Hk Ad).
  - rewrite Fr in Ad. pose proof (M (dynamic_as_always r) k (or_introl eq_refl) Hk eq_refl) as R. rewrite (dynamic_rule_at H T r k) in R.
    destruct k as [|k']; [discriminate Ad|exact R].
  - apply (M r0 k (or_intror I0) Hk Ad).
Qed.
Corollary parts_same_stable_models (P : list (srule A)) (r : srule A) T :
  (sp A r = Initial -> (tsm A h (r :: P) T <-> tsm A h (initial_as_always r :: P) T)) /\
  (sp A r = Dynamic -> (tsm A h (r :: P) T <-> tsm A h (dynamic_as_always r :: P) T)).
Proof.
  split; intros Fr; unfold tsm.
  - rewrite (initial_part_is_always_with_initial P r Fr T T). split; intros [M Min]; (split; [exact M|]); intros H S MH; apply (Min H S);
      now apply (initial_part_is_always_with_initial P r Fr H T).
  - rewrite (dynamic_part_is_always_without_initial P r Fr T T). split; intros [M Min]; (split; [exact M|]); intros H S MH; apply (Min H S);
      now apply (dynamic_part_is_always_without_initial P r Fr H T).
Qed.
End FinalPart.
