(* Leaf lemmas about the definitions regenerated from telingo/__init__.py:imain.  Decision-style proofs only. *)
Require Import GenPrelude FromSource Loop.
Section Spec.
Variables (imax : option nat) (imin : nat) (istop : stopc) (res : nat -> result).
Definition stops (r : result) : bool := match istop with StopSAT => satisfiable r | StopUNSAT => unsatisfiable r | StopUNKNOWN => unknown r end.
Definition below_max n := match imax with None => true | Some m => n <? m end.
Definition goes (n : nat) : bool := below_max n && ((n =? 0) || (n <? imin) || negb (stops (res (n-1)))).
Definition prev_of n := match n with 0 => None | S k => Some (res k) end.
Lemma loop_cond_gen_spec n : loop_cond_gen imax imin istop n (prev_of n) = Some (goes n).
Proof.
  unfold loop_cond_gen, goes, below_max, stops.
  destruct imax as [m|]; destruct n as [|k]; cbn [prev_of]; rewrite ?Nat.sub_0_r; try (replace (S k - 1) with k by lia);
    destruct istop; try destruct (res k); cbn [stopc_eqb satisfiable unsatisfiable unknown]; pbool.
Qed.
End Spec.
Definition part_sel (r : root) (s i : nat) : bool := match r with RAlways => i <=? s | RDynamic => i <? s | RInitial => i =? s end.
Lemma part_selected_gen_spec r s i : part_selected_gen r s i = Some (part_sel r s i).
Proof. unfold part_selected_gen, part_sel. destruct r; cbn [root_eqb]; pbool. Qed.
Lemma part_params_gen_spec s i : part_params_gen s i = (Some (Z.of_nat s - Z.of_nat i)%Z, Some (Z.of_nat s)).
Proof. reflexivity. Qed.
Lemma assume_false_gen_spec time step : assume_false_gen time step = Some (step <? time).
Proof. unfold assume_false_gen. pbool. Qed.
(* the loop body: which calls run at [step], in which order *)
Lemma loop_body_gen_spec step :
  live_calls (loop_body_gen step) = Some ((if 0 <? step then [CRelease (Some (Z.of_nat step - 1)%Z); CCleanup] else [])
                          ++ [CGround; CTranslate; CAssign (Some (Z.of_nat step)) true; CSolve (Some (Z.of_nat step + 1)%Z)]).
Proof.
  unfold live_calls, loop_body_gen. cbn [fold_right fst snd olift2].
  rewrite Z.gtb_ltb. destruct (Z.ltb_spec 0 (Z.of_nat step)); destruct (Nat.ltb_spec 0 step); try lia; reflexivity.
Qed.
Lemma defaults_gen_spec : default_imin_gen = 0 /\ default_imax_gen = None /\ default_istop_gen = StopSAT.
Proof. repeat split; reflexivity. Qed.
