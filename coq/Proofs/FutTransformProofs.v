(* Proofs about Model/FutTransform.v (the model of the program transformer on the C01 + C02 fragment, built over the regenerated decisions):
   - a constraint (any part but final) is accepted; the look-ahead depth the transformer computes for it is the look-ahead of the window model
     (Model/Window.v), and the ground instances of its temporary copy (`__final(__u)` appended, parameters (t,u) = (s-i, s)) and of its permanent
     copy mean exactly the instances `ginst s (s-i) true` / `ginst s (s-L) false` of the window model - so Window.C02_window, temp_live, temp_dead
     and perm_meaning speak about what the transformer emits;
   - the parts to ground listed for a group of look-ahead constraints of depth L are the temporary part with offsets 0..L-1 and the permanent part
     with offset L - the input of C02_loop_grounds_window;
   - every future head of an accepted program has its future predicate (bridge rule and future signature). *)
From Coq Require Import List Bool Arith ZArith Lia.
Require Import GenPrelude FromTransformers Ctx CtxProofs HT TEL CoreRun Window FutTransform.
Import ListNotations.
Section P.
Variable A : Type.
Variable leA : A -> A -> bool.
Notation frule := (frule A).
Notation qatom := (qatom A).
Notation qrule := (qrule A).
Notation gatom := (CoreRun.gatom A).
Notation gf := (form gatom).
Definition to_sgn (s : fsgn) : Window.sgn := match s with FPos => Window.Pos | FNeg => Window.Neg | FNegNeg => Window.NegNeg end.
Definition to_batom (b : fbatom A) : Window.batom A :=
  match b with
  | FAt _ a lead trail => if trail <=? lead then Window.BAt A a (lead - trail) else Window.BFut A a (trail - lead)
  | FInit _ a => Window.BInit A a
  | FKwI _ => Window.BKwI A
  | FKwF _ => Window.BKwF A
  | FTel _ => Window.BKwI A                      (* no counterpart in the window model: excluded by tel_free below *)
  end.
Definition tel_free (l : list (fsgn * fbatom A)) : Prop := forall x, In x l -> snd x <> FTel A.
Definition to_spart (p : fpart) : Window.spart := match p with FInitial => Window.Initial | FDynamic => Window.Dynamic | _ => Window.Always end.
Definition to_crule (r : frule) : Window.crule A :=
  {| Window.cp := to_spart (fp A r); Window.cb := map (fun l => (to_sgn (fst l), to_batom (snd l))) (fb A r) |}.
(* ground instance of a rewritten constraint at step s with parameters (t, u) *)
Definition ginst_q (s : nat) (t u : Z) (q : qatom) : gf :=
  match q with
  | QU _ a (QRel z) => Window.user A s a (t + z)
  | QU _ a QZero => Window.user A s a 0
  | QFut _ _ _ _ => Bot _
  | QI _ => Var _ (CoreRun.GI A t)
  | QF _ => Var _ (CoreRun.GF A t)
  | QFU _ => Var _ (CoreRun.GF A u)
  | QTel _ => Bot _
  end.
Fixpoint body_q (s : nat) (t u : Z) (l : list (fsgn * qatom)) : gf :=
  match l with [] => Window.GTop A | (sg, q) :: r => And _ (Window.sgn_gf A (to_sgn sg) (ginst_q s t u q)) (body_q s t u r) end.
Definition ground_cons (s : nat) (t u : Z) (r : qrule) : gf := Imp _ (body_q s t u (qb A r)) (Bot _).
Definition cons_shape := shape_of A (FCons A).
Lemma user_eq s a z1 z2 : z1 = z2 -> Window.user A s a z1 = Window.user A s a z2.
Proof. now intros ->. Qed.
Lemma decide_body_cons ns lead trail ini : (ini = true -> lead = 0 /\ trail = 0) ->
  decide cons_shape (BodyLit ns) lead 1 trail ini =
  Accept false (0 <? Z.of_nat trail - Z.of_nat lead)%Z (Z.of_nat trail - Z.of_nat lead)%Z (((Z.of_nat trail - Z.of_nat lead) =? 0)%Z && ini).
Proof.
  intros WF. pose proof (decide_spec cons_shape (BodyLit ns) lead 1 trail ini eq_refl WF) as S.
  destruct (decide cons_shape (BodyLit ns) lead 1 trail ini) as [r la ts tz| | |] eqn:E; cbn in S; try discriminate.
  destruct (decide_accept _ _ _ _ _ _ _ _ _ _ E) as (-> & -> & -> & ->). cbn [head_before andb negb]. now rewrite andb_false_r, andb_true_r.
Qed.
Lemma tr_blit_cons s t u l : snd l <> FTel A -> exists q, tr_blit A cons_shape l = Some ((fst l, q), Window.ahead A (to_batom (snd l))) /\
  ginst_q s t u q = Window.inst A s t (to_batom (snd l)).
Proof.
  intros NT. destruct l as [sg b]. destruct b as [a lead trail|a| | |]; cbn [tr_blit fst snd to_batom]; [| | | |cbn in NT; contradiction].
  - rewrite decide_body_cons by (intros X; discriminate X).
    assert (((Z.of_nat trail - Z.of_nat lead =? 0)%Z && false) = false) as -> by apply andb_false_r. cbn [tr_time].
    eexists. split.
    + f_equal. f_equal. destruct (trail <=? lead) eqn:E; cbn [Window.ahead].
      * apply Nat.leb_le in E. assert ((0 <? Z.of_nat trail - Z.of_nat lead)%Z = false) as -> by (apply Z.ltb_ge; lia). reflexivity.
      * apply Nat.leb_gt in E. assert ((0 <? Z.of_nat trail - Z.of_nat lead)%Z = true) as -> by (apply Z.ltb_lt; lia). lia.
    + cbn [ginst_q]. destruct (trail <=? lead) eqn:E; cbn [Window.inst]; apply user_eq.
      * apply Nat.leb_le in E. lia.
      * apply Nat.leb_gt in E. lia.
  - rewrite decide_body_cons by (intros _; split; reflexivity). cbn. eexists. split; reflexivity.
  - eexists. split; reflexivity.
  - eexists. split; reflexivity.
Qed.
Lemma tr_body_cons s t u : forall l, tel_free l -> exists bd, tr_body A cons_shape l = Some (bd, Window.lookahead A (map (fun x => (to_sgn (fst x), to_batom (snd x))) l)) /\
  body_q s t u bd = Window.body_gf A s t (map (fun x => (to_sgn (fst x), to_batom (snd x))) l).
Proof.
  induction l as [|x l IH]; intros TF; cbn [tr_body map Window.lookahead].
  - exists []. split; reflexivity.
  - destruct (IH (fun y Hy => TF y (or_intror Hy))) as (bd & E & B). destruct (tr_blit_cons s t u x (TF x (or_introl eq_refl))) as (q & Eq & G). rewrite Eq, E. exists ((fst x, q) :: bd). split; [reflexivity|].
    cbn [body_q Window.body_gf]. now rewrite G, B.
Qed.
Lemma body_q_app s t u l1 l2 H T : hsat _ H T (body_q s t u (l1 ++ l2)) = hsat _ H T (body_q s t u l1) && hsat _ H T (body_q s t u l2)
                                 /\ csat _ T (body_q s t u (l1 ++ l2)) = csat _ T (body_q s t u l1) && csat _ T (body_q s t u l2).
Proof.
  induction l1 as [|[sg q] l1 [IHh IHc]]; cbn [app body_q hsat csat Window.GTop implb andb]; [split; reflexivity|]. rewrite IHh, IHc. split; now rewrite andb_assoc.
Qed.
Definition tmp_of (r : qrule) : qrule := {| qh := qh A r; qb := (qb A r ++ [(FPos, QFU A)])%list |}.
(* a constraint outside the final part: accepted, depth = look-ahead of the window model, and its two copies mean the window instances *)
Theorem constraint_copies (r : frule) : fh A r = FCons A -> is_final (fp A r) = false -> tel_free (fb A r) ->
  exists t, transform_rule A r = Some t /\ t_shift A t = Window.lookahead A (Window.cb A (to_crule r)) /\ t_fut A t = [] /\
    forall (H T : interp gatom) (s k : nat),
      (hsat _ H T (ground_cons s (Z.of_nat k) (Z.of_nat s) (tmp_of (t_rule A t))) = hsat _ H T (Window.ginst A s k true (to_crule r)) /\
       csat _ T (ground_cons s (Z.of_nat k) (Z.of_nat s) (tmp_of (t_rule A t))) = csat _ T (Window.ginst A s k true (to_crule r))) /\
      (hsat _ H T (ground_cons s (Z.of_nat k) (Z.of_nat s) (t_rule A t)) = hsat _ H T (Window.ginst A s k false (to_crule r)) /\
       csat _ T (ground_cons s (Z.of_nat k) (Z.of_nat s) (t_rule A t)) = csat _ T (Window.ginst A s k false (to_crule r))).
Proof.
  intros Hh Hf TF. unfold transform_rule. rewrite Hh, Hf. cbn [tr_head]. fold cons_shape.
  destruct (tr_body_cons 0 0%Z 0%Z (fb A r) TF) as (bd & E & _). rewrite E. eexists. split; [reflexivity|]. cbn [t_shift t_fut t_rule]. split; [reflexivity|]. split; [reflexivity|].
  intros H T s k. rewrite app_nil_r.
  destruct (tr_body_cons s (Z.of_nat k) (Z.of_nat s) (fb A r) TF) as (bd' & E' & B). rewrite E in E'. injection E' as <-.
  unfold ground_cons, tmp_of, Window.ginst, to_crule. cbn [qb qh Window.cb].
  destruct (body_q_app s (Z.of_nat k) (Z.of_nat s) bd [(FPos, QFU A)] H T) as [Ah Ac].
  cbn [hsat csat]. rewrite Ah, Ac, B. cbn [body_q hsat csat to_sgn Window.sgn_gf ginst_q Window.GTop implb andb].
  repeat split; rewrite ?andb_true_r; try reflexivity;
    try (rewrite (andb_comm (hsat _ H T (Window.body_gf A s (Z.of_nat k) _))), (andb_comm (csat _ T (Window.body_gf A s (Z.of_nat k) _))); reflexivity);
    try (rewrite (andb_comm (csat _ T (Window.body_gf A s (Z.of_nat k) _))); reflexivity).
Qed.
(* the parts to ground of a group of look-ahead constraints: offsets 0..L-1 for the temporary copies, offset L for the permanent ones *)
Theorem cons_parts (P : list frule) o : transform_program A leA P = Some o ->
  forall rt L rs, In ((rt, L), rs) (o_cons A o) -> In (rt, KTmp L, seq 0 L) (o_parts A o) /\ In (rt, KPerm L, [L]) (o_parts A o).
Proof.
  unfold transform_program. destruct (fold_left (step A leA) P (Some (empty A))) as [o0|]; [|discriminate]. intros E. injection E as <-. cbn [o_cons o_parts].
  intros rt L rs I. unfold parts_of. split; apply in_or_app; left; apply in_flat_map; exists ((rt, L), rs); (split; [exact I|]); cbn; auto.
Qed.
Theorem main_parts (P : list frule) o : transform_program A leA P = Some o ->
  In (ORAlways, KMain, [0]) (o_parts A o) /\ In (ORDynamic, KMain, [0]) (o_parts A o) /\ In (ORInitial, KMain, [0]) (o_parts A o).
Proof.
  unfold transform_program. destruct (fold_left (step A leA) P (Some (empty A))) as [o0|]; [|discriminate]. intros E. injection E as <-. cbn [o_parts]. unfold parts_of.
  repeat split; apply in_or_app; right; cbn; auto.
Qed.
(* future predicates: whatever a rule contributes is in the set afterwards, and stays *)
Definition has (l : list (A * nat)) (x : A * nat) : Prop := exists y, In y l /\ eq_fut A leA x y = true.
Hypothesis leA_refl : forall a, leA a a = true.
Hypothesis leA_trans : forall a b c, leA a b = true -> leA b c = true -> leA a c = true.
Lemma eq_fut_refl x : eq_fut A leA x x = true.
Proof. unfold eq_fut, le_fut. rewrite leA_refl, Nat.leb_refl. reflexivity. Qed.
Lemma insert_has x l : has (insert_fut A leA x l) x.
Proof.
  induction l as [|y l IH]; cbn [insert_fut].
  - exists x. split; [now left|apply eq_fut_refl].
  - destruct (eq_fut A leA x y) eqn:E; [exists y; split; [now left|exact E]|].
    destruct (le_fut A leA x y); [exists x; split; [now left|apply eq_fut_refl]|].
    destruct IH as (z & I & Ez). exists z. split; [now right|exact Ez].
Qed.
Lemma insert_keeps x l z : has l z -> has (insert_fut A leA x l) z.
Proof.
  intros (y & I & E). induction l as [|y0 l IH]; [destruct I|]. cbn [insert_fut].
  destruct (eq_fut A leA x y0); [exists y; auto|]. destruct (le_fut A leA x y0); [exists y; split; [now right|exact E]|].
  destruct I as [->|I]; [exists y; split; [now left|exact E]|]. destruct (IH I) as (w & Iw & Ew). exists w. split; [now right|exact Ew].
Qed.
Lemma fold_insert_keeps xs : forall l z, has l z -> has (fold_left (fun l x => insert_fut A leA x l) xs l) z.
Proof. induction xs as [|x xs IH]; intros l z Hz; cbn [fold_left]; [exact Hz|]. apply IH. now apply insert_keeps. Qed.
Lemma fold_insert_has xs : forall l x, In x xs -> has (fold_left (fun l x => insert_fut A leA x l) xs l) x.
Proof.
  induction xs as [|y xs IH]; intros l x I; [destruct I|]. cbn [fold_left]. destruct I as [->|I]; [apply fold_insert_keeps, insert_has|now apply IH].
Qed.
Lemma step_bridge acc r o : step A leA acc r = Some o -> exists o0 t, acc = Some o0 /\ transform_rule A r = Some t /\
  (forall z, has (o_bridge A o0) z -> has (o_bridge A o) z) /\ (forall x, In x (t_fut A t) -> has (o_bridge A o) x).
Proof.
  unfold step. destruct acc as [o0|]; [|discriminate]. destruct (transform_rule A r) as [t|]; [|discriminate].
  destruct (lookahead_part_gen (Z.of_nat (t_shift A t)) (is_final (fp A r))) as [[|]|]; try discriminate; intros E; injection E as <-; exists o0, t; cbn [o_bridge];
    (split; [reflexivity|]); (split; [reflexivity|]); split; [apply fold_insert_keeps|apply fold_insert_has|apply fold_insert_keeps|apply fold_insert_has].
Qed.
Lemma fold_step_bridge P : forall acc o, fold_left (step A leA) P acc = Some o ->
  (forall o0 z, acc = Some o0 -> has (o_bridge A o0) z -> has (o_bridge A o) z) /\
  (forall r, In r P -> exists t, transform_rule A r = Some t /\ forall x, In x (t_fut A t) -> has (o_bridge A o) x).
Proof.
  induction P as [|r P IH]; intros acc o E; cbn [fold_left] in E.
  - split; [intros o0 z -> Hz; injection E as <-; exact Hz|intros r []].
  - destruct (step A leA acc r) as [o1|] eqn:S.
    + destruct (IH _ _ E) as [K1 K2]. destruct (step_bridge _ _ _ S) as (o0 & t & -> & Et & Keep & New). split.
      * intros o0' z Eo Hz. injection Eo as <-. apply (K1 o1 z eq_refl). now apply Keep.
      * intros r' [<-|I]; [exists t; split; [exact Et|]; intros x Ix; apply (K1 o1 x eq_refl); now apply New|now apply K2].
    + exfalso. clear -E. induction P as [|r' P IHP]; cbn [fold_left] in E; [discriminate|]. apply IHP. exact E.
Qed.
(* every future head of an accepted program has its future predicate: bridge rule and future signature *)
Theorem future_heads_have_bridges (P : list frule) o : transform_program A leA P = Some o ->
  forall r a n, In r P -> fh A r = FNorm A a n -> 0 < n -> has (o_bridge A o) (a, n).
Proof.
  unfold transform_program. destruct (fold_left (step A leA) P (Some (empty A))) as [o0|] eqn:F; [|discriminate]. intros E. injection E as <-. cbn [o_bridge].
  intros r a n I Hh Hn. destruct (fold_step_bridge P _ _ F) as [_ K]. destruct (K r I) as (t & Et & Hin). apply Hin.
  unfold transform_rule in Et. rewrite Hh in Et. cbn [tr_head] in Et.
  destruct (decide (shape_of A (FNorm A a n)) HeadLit 0 1 n false) as [ren la ts tz| | |] eqn:D; try discriminate.
  destruct (decide_accept _ _ _ _ _ _ _ _ _ _ D) as (_ & _ & Er & _). cbn [head_before lit_nosign shape_of nosign andb] in Er.
  assert (ren = true) as -> by (rewrite Er; apply andb_true_iff; split; [apply Z.ltb_lt; lia|reflexivity]).
  destruct la; [discriminate|]. destruct (tr_body A (shape_of A (FNorm A a n)) (fb A r)) as [[bd m]|]; [|discriminate]. injection Et as <-. cbn [t_fut]. now left.
Qed.
End P.
(* ---------------- the future predicates are emitted in sorted order, once each, whatever the order of the statements ---------------- *)
From Coq Require Import Permutation Sorting.Sorted.
Section Order.
Variable A : Type.
Variable leA : A -> A -> bool.
Hypothesis leA_total : forall a b, leA a b = true \/ leA b a = true.
Hypothesis leA_trans : forall a b c, leA a b = true -> leA b c = true -> leA a c = true.
Hypothesis leA_antisym : forall a b, leA a b = true -> leA b a = true -> a = b.
Notation le_fut := (le_fut A leA).
Notation eq_fut := (eq_fut A leA).
Notation insert_fut := (insert_fut A leA).
Lemma leA_refl' a : leA a a = true.  Proof. destruct (leA_total a a); assumption. Qed.
Lemma le_fut_total x y : le_fut x y = true \/ le_fut y x = true.
Proof.
  unfold FutTransform.le_fut. destruct (leA (fst x) (fst y)) eqn:E1, (leA (fst y) (fst x)) eqn:E2; auto.
  - destruct (Nat.leb_spec (snd x) (snd y)); [now left|right; apply Nat.leb_le; lia].
  - destruct (leA_total (fst x) (fst y)); congruence.
Qed.
Lemma le_fut_spec x y : le_fut x y = true <-> leA (fst x) (fst y) = true /\ (leA (fst y) (fst x) = true -> snd x <= snd y).
Proof.
  unfold FutTransform.le_fut. destruct (leA (fst x) (fst y)) eqn:E1; [|split; [discriminate|intros [X _]; discriminate X]].
  destruct (leA (fst y) (fst x)) eqn:E2.
  - rewrite Nat.leb_le. split; [intros H; split; [reflexivity|intros _; exact H]|intros [_ H]; now apply H].
  - split; [intros _; split; [reflexivity|discriminate]|reflexivity].
Qed.
Lemma le_fut_trans x y z : le_fut x y = true -> le_fut y z = true -> le_fut x z = true.
Proof.
  rewrite !le_fut_spec. intros [A1 B1] [A2 B2]. split; [exact (leA_trans _ _ _ A1 A2)|]. intros Azx.
  assert (leA (fst y) (fst x) = true) as Ayx by exact (leA_trans _ _ _ A2 Azx). assert (leA (fst z) (fst y) = true) as Azy by exact (leA_trans _ _ _ Azx A1).
  specialize (B1 Ayx). specialize (B2 Azy). lia.
Qed.
Lemma eq_fut_eq x y : eq_fut x y = true -> x = y.
Proof.
  unfold FutTransform.eq_fut, FutTransform.le_fut. destruct x as [a n], y as [b m]. cbn [fst snd].
  destruct (leA a b) eqn:E1, (leA b a) eqn:E2; cbn; try discriminate. intros H. apply andb_true_iff in H as [H1 H2]. apply Nat.leb_le in H1, H2.
  rewrite (leA_antisym a b E1 E2). f_equal. lia.
Qed.
Definition lt_fut (x y : A * nat) : Prop := le_fut x y = true /\ x <> y.
Lemma insert_fut_in x l z : In z (insert_fut x l) <-> z = x \/ In z l.
Proof.
  induction l as [|y l IH]; cbn [FutTransform.insert_fut In]; [intuition|].
  destruct (eq_fut x y) eqn:E; [apply eq_fut_eq in E; subst; cbn [In]; intuition|]. destruct (le_fut x y); cbn [In]; [intuition|]. rewrite IH. intuition.
Qed.
Lemma insert_fut_sorted x l : StronglySorted lt_fut l -> StronglySorted lt_fut (insert_fut x l).
Proof.
  induction 1 as [|y r S IH F]; cbn [FutTransform.insert_fut]; [repeat constructor|].
  destruct (eq_fut x y) eqn:E; [now constructor|]. destruct (le_fut x y) eqn:L.
  - constructor; [now constructor|]. assert (lt_fut x y) as Lxy by (split; [exact L|intros ->; unfold FutTransform.eq_fut in E; rewrite L in E; discriminate]).
    constructor; [exact Lxy|]. eapply Forall_impl; [|exact F]. intros z [Lz Nz]. split; [exact (le_fut_trans _ _ _ L Lz)|].
    intros ->. destruct Lxy as [_ N]. apply N. apply eq_fut_eq. unfold FutTransform.eq_fut. now rewrite L, Lz.
  - constructor; [exact IH|]. apply Forall_forall. intros z Hz. apply insert_fut_in in Hz as [->|Hz]; [|exact (proj1 (Forall_forall _ _) F z Hz)].
    destruct (le_fut_total x y) as [X|X]; [congruence|]. split; [exact X|]. intros ->. unfold FutTransform.eq_fut in E. rewrite X in E. discriminate.
Qed.
Lemma fold_insert_in xs : forall l z, In z (fold_left (fun l x => insert_fut x l) xs l) <-> In z xs \/ In z l.
Proof. induction xs as [|x xs IH]; intros l z; cbn [fold_left In]; [intuition|]. rewrite IH, insert_fut_in. intuition. Qed.
Lemma fold_insert_sorted xs : forall l, StronglySorted lt_fut l -> StronglySorted lt_fut (fold_left (fun l x => insert_fut x l) xs l).
Proof. induction xs as [|x xs IH]; intros l S; cbn [fold_left]; [exact S|]. apply IH. now apply insert_fut_sorted. Qed.
Definition futs_of (P : list (frule A)) (z : A * nat) : Prop := exists r t, In r P /\ transform_rule A r = Some t /\ In z (t_fut A t).
Lemma fold_step_bridge_exact P : forall acc o, fold_left (step A leA) P (Some acc) = Some o -> StronglySorted lt_fut (o_bridge A acc) ->
  StronglySorted lt_fut (o_bridge A o) /\ forall z, In z (o_bridge A o) <-> futs_of P z \/ In z (o_bridge A acc).
Proof.
  induction P as [|r P IH]; intros acc o E S; cbn [fold_left] in E.
  - injection E as <-. split; [exact S|]. intros z. split; [now right|]. intros [(r & t & [] & _)|H]; exact H.
  - destruct (step A leA (Some acc) r) as [o1|] eqn:St; [|exfalso; clear -E; induction P as [|r' P IHP]; cbn [fold_left] in E; [discriminate|now apply IHP]].
    assert (exists t, transform_rule A r = Some t /\ o_bridge A o1 = fold_left (fun l x => insert_fut x l) (t_fut A t) (o_bridge A acc)) as (t & Et & Eb).
    { unfold step in St. destruct (transform_rule A r) as [t|]; [|discriminate]. exists t. split; [reflexivity|].
      destruct (lookahead_part_gen (Z.of_nat (t_shift A t)) (is_final (fp A r))) as [[|]|]; try discriminate; injection St as <-; reflexivity. }
    destruct (IH o1 o E) as [S' In']; [rewrite Eb; now apply fold_insert_sorted|]. split; [exact S'|]. intros z. rewrite In', Eb, fold_insert_in. split.
    + intros [(r' & t' & I' & Et' & Iz)|[Iz|Iz]]; [left; exists r', t'; split; [now right|auto]|left; exists r, t; split; [now left|auto]|now right].
    + intros [(r' & t' & [<-|I'] & Et' & Iz)|Iz]; [right; left; congruence|left; exists r', t'; auto|right; now right].
Qed.
Lemma sorted_same_elements : forall l l', StronglySorted lt_fut l -> StronglySorted lt_fut l' -> (forall z, In z l <-> In z l') -> l = l'.
Proof.
  induction l as [|x r IH]; intros l' S S' E.
  - destruct l' as [|y r']; [reflexivity|]. exfalso. apply (proj2 (E y)). now left.
  - destruct l' as [|y r']; [exfalso; apply (proj1 (E x)); now left|].
    inversion S as [|? ? Sr Fr]; subst. inversion S' as [|? ? Sr' Fr']; subst.
    assert (x = y) as ->.
    { destruct (proj1 (E x) (or_introl eq_refl)) as [->|Hx]; [reflexivity|]. destruct (proj2 (E y) (or_introl eq_refl)) as [->|Hy]; [reflexivity|].
      destruct (proj1 (Forall_forall _ _) Fr y Hy) as [L1 N1]. destruct (proj1 (Forall_forall _ _) Fr' x Hx) as [L2 N2].
      apply eq_fut_eq. unfold FutTransform.eq_fut. now rewrite L1, L2. }
    f_equal. apply IH; try assumption. intros z. split; intros Hz.
    + destruct (proj1 (E z) (or_intror Hz)) as [E1|H]; [|exact H]. subst z. destruct (proj1 (Forall_forall _ _) Fr y Hz) as [_ N]. contradiction.
    + destruct (proj2 (E z) (or_intror Hz)) as [E1|H]; [|exact H]. subst z. destruct (proj1 (Forall_forall _ _) Fr' y Hz) as [_ N]. contradiction.
Qed.
(* the bridge rules / future signatures of an accepted program: strictly sorted, exactly the future predicates of its rule heads *)
Theorem bridges_sorted_and_exact (P : list (frule A)) o : transform_program A leA P = Some o ->
  StronglySorted lt_fut (o_bridge A o) /\ forall z, In z (o_bridge A o) <-> futs_of P z.
Proof.
  unfold transform_program. destruct (fold_left (step A leA) P (Some (empty A))) as [o0|] eqn:F; [|discriminate]. intros E. injection E as <-. cbn [o_bridge].
  destruct (fold_step_bridge_exact P (empty A) o0 F) as [S I]; [constructor|]. split; [exact S|]. intros z. rewrite I. cbn. intuition.
Qed.
(* ... hence independent of the order (and of repetitions) of the statements *)
Theorem bridges_order_independent (P Q : list (frule A)) o o' : (forall r, In r P <-> In r Q) ->
  transform_program A leA P = Some o -> transform_program A leA Q = Some o' -> o_bridge A o = o_bridge A o'.
Proof.
  intros Same E E'. destruct (bridges_sorted_and_exact P o E) as [S I]. destruct (bridges_sorted_and_exact Q o' E') as [S' I'].
  apply sorted_same_elements; try assumption. intros z. rewrite I, I'. unfold futs_of. split; intros (r & t & Ir & Et & Iz); exists r, t; (split; [now apply Same|auto]).
Qed.
End Order.
(* ---------------- where the auxiliary future atoms occur (the cleanliness hypotheses of Spec/DefElim.v for the rewritten program) ---------------- *)
Section Shape.
Variable A : Type.
Definition plain_atom (q : qatom A) : bool := match q with QU _ _ _ | QI _ | QF _ | QTel _ => true | _ => false end.
Lemma tr_blit_plain sh l y m : tr_blit A sh l = Some (y, m) -> plain_atom (snd y) = true.
Proof.
  destruct l as [s b]. destruct b as [a lead trail|a| | |]; cbn [tr_blit].
  - destruct (decide sh (BodyLit (is_pos s)) lead 1 trail false) as [[|] la ts tz| | |]; try discriminate. intros E. injection E as <- _. reflexivity.
  - destruct (decide sh (BodyLit (is_pos s)) 0 1 0 true) as [[|] la ts tz| | |]; try discriminate. intros E. injection E as <- _. reflexivity.
  - intros E. injection E as <- _. reflexivity.
  - intros E. injection E as <- _. reflexivity.
  - destruct (is_constraint_gen _ _ _ _ _ _) as [c|]; [|discriminate]. destruct (tel_ctx_reject_gen (negb (is_pos s)) c) as [[|]|]; try discriminate. intros E. injection E as <- _. reflexivity.
Qed.
Lemma tr_body_plain sh : forall l bd m, tr_body A sh l = Some (bd, m) -> forallb (fun y => plain_atom (snd y)) bd = true.
Proof.
  induction l as [|x l IH]; intros bd m E; cbn [tr_body] in E; [injection E as <- _; reflexivity|].
  destruct (tr_blit A sh x) as [[y m1]|] eqn:Ex; [|discriminate]. destruct (tr_body A sh l) as [[ys m2]|] eqn:El; [|discriminate]. injection E as <- _.
  cbn [forallb]. now rewrite (tr_blit_plain sh x y m1 Ex), (IH ys m2 eq_refl).
Qed.
(* in an accepted rule the bodies mention ordinary atoms and the two markers only - never an auxiliary `__future_` atom; a normal rule whose head has
   n > 0 trailing primes gets the head `__future_p(n, __t+n)`, without primes the head `p(__t)`; other heads are unchanged *)
Theorem accepted_rule_shape (r : frule A) t : transform_rule A r = Some t ->
  forallb (fun y => plain_atom (snd y)) (qb A (t_rule A t)) = true /\
  match fh A r with
  | FNorm _ a n => qh A (t_rule A t) = QHAtom A (if 0 <? n then QFut A a n (QRel (Z.of_nat n)) else QU A a (QRel 0%Z)) /\ t_fut A t = (if 0 <? n then [(a, n)] else [])
  | FDisj _ l => qh A (t_rule A t) = QHDisj A l /\ t_fut A t = []
  | FChoice _ l => qh A (t_rule A t) = QHChoice A l /\ t_fut A t = []
  | FCons _ => qh A (t_rule A t) = QHCons A /\ t_fut A t = []
  | FTelHead _ => qh A (t_rule A t) = QHAux A 0 /\ t_fut A t = []
  end.
Proof.
  unfold transform_rule. destruct (tr_head A (fh A r)) as [[hd fut]|] eqn:Eh; [|discriminate]. destruct (tr_body A (shape_of A (fh A r)) (fb A r)) as [[bd m]|] eqn:Eb; [|discriminate].
  intros E. injection E as <-. cbn [t_rule t_fut qb qh]. split.
  - rewrite forallb_app, (tr_body_plain _ _ _ _ Eb). destruct (is_final (fp A r)); reflexivity.
  - destruct (fh A r) as [a n|l|l| |] eqn:Hh; cbn [tr_head] in Eh.
    + destruct (decide (shape_of A (FNorm A a n)) HeadLit 0 1 n false) as [ren la ts tz| | |] eqn:Dd; try discriminate. destruct la; [discriminate|].
      destruct (decide_accept _ _ _ _ _ _ _ _ _ _ Dd) as (Ets & Etz & Er & _). cbn [head_before lit_nosign shape_of nosign andb] in Er. rewrite andb_true_r in Er.
      injection Eh as <- <-. rewrite Etz, andb_false_r. cbn [tr_time]. rewrite Ets, Er.
      replace (Z.of_nat n - Z.of_nat 0)%Z with (Z.of_nat n) by lia.
      destruct (Nat.ltb_spec 0 n) as [L|L].
      * assert ((0 <? Z.of_nat n)%Z = true) as -> by (apply Z.ltb_lt; lia). split; reflexivity.
      * assert (n = 0) as -> by lia. split; reflexivity.
    + destruct (plain_elem (shape_of A (FDisj A l))); [|discriminate]. injection Eh as <- <-. split; reflexivity.
    + destruct (plain_elem (shape_of A (FChoice A l))); [|discriminate]. injection Eh as <- <-. split; reflexivity.
    + injection Eh as <- <-. split; reflexivity.
    + injection Eh as <- <-. split; reflexivity.
Qed.
End Shape.
(* ---------------- head formulas are numbered consecutively over the whole input ---------------- *)
Section Aux.
Variable A : Type.
Variable leA : A -> A -> bool.
Definition tel_heads (P : list (frule A)) : nat := List.length (filter (fun r => is_tel_head A (fh A r)) P).
Lemma step_naux acc r o : step A leA (Some acc) r = Some o -> o_naux A o = (if is_tel_head A (fh A r) then S (o_naux A acc) else o_naux A acc).
Proof.
  unfold step. destruct (transform_rule A r) as [t|]; [|discriminate].
  destruct (lookahead_part_gen (Z.of_nat (t_shift A t)) (is_final (fp A r))) as [[|]|]; try discriminate; intros E; injection E as <-; reflexivity.
Qed.
Lemma fold_step_naux P : forall acc o, fold_left (step A leA) P (Some acc) = Some o -> o_naux A o = o_naux A acc + tel_heads P.
Proof.
  induction P as [|r P IH]; intros acc o E; cbn [fold_left] in E.
  - injection E as <-. unfold tel_heads. cbn. lia.
  - destruct (step A leA (Some acc) r) as [o1|] eqn:St; [|exfalso; clear -E; induction P as [|r' P IHP]; cbn [fold_left] in E; [discriminate|now apply IHP]].
    rewrite (IH o1 o E), (step_naux acc r o1 St). unfold tel_heads. cbn [filter]. destruct (is_tel_head A (fh A r)); cbn [List.length]; lia.
Qed.
(* the auxiliary atoms __aux_0 .. __aux_(n-1) stand for the n head formulas of the whole input (one counter across all statements and files) *)
Theorem aux_atoms_count (P : list (frule A)) o : transform_program A leA P = Some o -> o_naux A o = tel_heads P.
Proof.
  unfold transform_program. destruct (fold_left (step A leA) P (Some (empty A))) as [o0|] eqn:F; [|discriminate]. intros E. injection E as <-. cbn [o_naux].
  now rewrite (fold_step_naux P (empty A) o0 F).
Qed.
End Aux.
(* ---------------- the rewriting commutes with instantiation: it never looks inside an atom (C06) ---------------- *)
Section Natural.
Variables A B : Type.
Variable f : A -> B.                (* instantiation of atom schemata: the atoms of a rule are replaced by their instances *)
Definition map_fbatom (b : fbatom A) : fbatom B :=
  match b with FAt _ a l t => FAt B (f a) l t | FInit _ a => FInit B (f a) | FKwI _ => FKwI B | FKwF _ => FKwF B | FTel _ => FTel B end.
Definition map_fhead (h : fhead A) : fhead B :=
  match h with FNorm _ a n => FNorm B (f a) n | FDisj _ l => FDisj B (map f l) | FChoice _ l => FChoice B (map f l) | FCons _ => FCons B | FTelHead _ => FTelHead B end.
Definition map_frule (r : frule A) : frule B := {| fp := fp A r; fh := map_fhead (fh A r); fb := map (fun l => (fst l, map_fbatom (snd l))) (fb A r) |}.
Definition map_qatom (q : qatom A) : qatom B :=
  match q with QU _ a tm => QU B (f a) tm | QFut _ a n tm => QFut B (f a) n tm | QI _ => QI B | QF _ => QF B | QFU _ => QFU B | QTel _ => QTel B end.
Definition map_qhead (h : qhead A) : qhead B :=
  match h with QHAtom _ p => QHAtom B (map_qatom p) | QHDisj _ l => QHDisj B (map f l) | QHChoice _ l => QHChoice B (map f l) | QHCons _ => QHCons B | QHAux _ k => QHAux B k end.
Definition map_qrule (r : qrule A) : qrule B := {| qh := map_qhead (qh A r); qb := map (fun l => (fst l, map_qatom (snd l))) (qb A r) |}.
Definition map_tres (t : tres A) : tres B := {| t_rule := map_qrule (t_rule A t); t_shift := t_shift A t; t_fut := map (fun x => (f (fst x), snd x)) (t_fut A t) |}.
Lemma tr_blit_natural sh l : tr_blit B sh (fst l, map_fbatom (snd l)) = option_map (fun y => ((fst (fst y), map_qatom (snd (fst y))), snd y)) (tr_blit A sh l).
Proof.
  destruct l as [s b]. destruct b as [a lead trail|a| | |]; cbn [tr_blit fst snd map_fbatom].
  - destruct (decide sh (BodyLit (is_pos s)) lead 1 trail false) as [[|] la ts tz| | |]; reflexivity.
  - destruct (decide sh (BodyLit (is_pos s)) 0 1 0 true) as [[|] la ts tz| | |]; reflexivity.
  - reflexivity.
  - reflexivity.
  - destruct (is_constraint_gen _ _ _ _ _ _) as [c|]; [|reflexivity]. destruct (tel_ctx_reject_gen (negb (is_pos s)) c) as [[|]|]; reflexivity.
Qed.
Lemma tr_body_natural sh : forall l, tr_body B sh (map (fun x => (fst x, map_fbatom (snd x))) l) =
  option_map (fun y => (map (fun z => (fst z, map_qatom (snd z))) (fst y), snd y)) (tr_body A sh l).
Proof.
  induction l as [|x l IH]; cbn [map tr_body]; [reflexivity|]. rewrite (tr_blit_natural sh x), IH.
  destruct (tr_blit A sh x) as [[y m]|]; cbn [option_map]; [|reflexivity]. destruct (tr_body A sh l) as [[ys n]|]; reflexivity.
Qed.
Lemma shape_natural h : shape_of B (map_fhead h) = shape_of A h.
Proof. destruct h; reflexivity. Qed.
Theorem transform_rule_natural (r : frule A) : transform_rule B (map_frule r) = option_map map_tres (transform_rule A r).
Proof.
  unfold transform_rule. cbn [map_frule fh fb fp]. rewrite shape_natural, tr_body_natural.
  assert (tr_head B (map_fhead (fh A r)) = option_map (fun y => (map_qhead (fst y), map (fun x => (f (fst x), snd x)) (snd y))) (tr_head A (fh A r))) as ->.
  { destruct (fh A r) as [a n|l|l| |]; cbn [map_fhead tr_head]; rewrite ?shape_natural.
    - change (shape_of B (FNorm B (f a) n)) with (shape_of A (FNorm A a n)). destruct (decide (shape_of A (FNorm A a n)) HeadLit 0 1 n false) as [ren [|] ts tz| | |]; try reflexivity. destruct ren; reflexivity.
    - change (shape_of B (FDisj B (map f l))) with (shape_of A (FDisj A l)). destruct (plain_elem (shape_of A (FDisj A l))); reflexivity.
    - change (shape_of B (FChoice B (map f l))) with (shape_of A (FChoice A l)). destruct (plain_elem (shape_of A (FChoice A l))); reflexivity.
    - reflexivity.
    - reflexivity. }
  destruct (tr_head A (fh A r)) as [[hd fut]|]; cbn [option_map]; [|reflexivity]. destruct (tr_body A (shape_of A (fh A r)) (fb A r)) as [[bd m]|]; cbn [option_map]; [|reflexivity].
  unfold map_tres, map_qrule. cbn [t_rule t_shift t_fut qh qb fst snd]. f_equal. f_equal. f_equal. rewrite map_app. f_equal. destruct (is_final (fp A r)); reflexivity.
Qed.
End Natural.
(* ---------------- a rule is rejected exactly if one of its atoms stands at a placement the property's table forbids (C11) ---------------- *)
Section Accept.
Variable A : Type.
Definition lit_allowed (sh : shape) (l : fsgn * fbatom A) : bool :=
  match snd l with
  | FAt _ _ lead trail => match allowed sh (BodyLit (is_pos (fst l))) (Z.of_nat trail - Z.of_nat lead)%Z false with EAccept => true | _ => false end
  | FInit _ _ => match allowed sh (BodyLit (is_pos (fst l))) 0%Z true with EAccept => true | _ => false end
  | FKwI _ | FKwF _ => true
  | FTel _ => negb (negb (negb (is_pos (fst l))) && negb (is_constraint_spec sh))          (* rejected exactly in a positive body literal of a non-constraint *)
  end.
Definition head_allowed (h : fhead A) : bool :=
  match h with
  | FNorm _ _ n => match allowed (shape_of A h) HeadLit (Z.of_nat n) false with EAccept => true | _ => false end
  | _ => true
  end.
Lemma decide_is_accept sh pl lead trail ini : wf_place sh pl = true -> (ini = true -> lead = 0 /\ trail = 0) ->
  (exists r la ts tz, decide sh pl lead 1 trail ini = Accept r la ts tz) <-> allowed sh pl (Z.of_nat trail - Z.of_nat lead)%Z ini = EAccept.
Proof.
  intros WP WF. pose proof (decide_spec sh pl lead 1 trail ini WP WF) as S. destruct (decide sh pl lead 1 trail ini) as [r la ts tz| | |]; cbn [verdict_class] in S.
  - injection S as <-. split; [reflexivity|intros _; eauto].
  - injection S as E. rewrite <- E. split; [intros (r & la & ts & tz & X); discriminate X|discriminate].
  - injection S as E. rewrite <- E. split; [intros (r & la & ts & tz & X); discriminate X|discriminate].
  - discriminate.
Qed.
Lemma tr_blit_some sh l : (exists y, tr_blit A sh l = Some y) <-> lit_allowed sh l = true.
Proof.
  destruct l as [s b]. destruct b as [a lead trail|a| | |]; cbn [tr_blit lit_allowed fst snd].
  - pose proof (decide_is_accept sh (BodyLit (is_pos s)) lead trail false eq_refl (fun X => ltac:(discriminate X))) as [K1 K2].
    destruct (decide sh (BodyLit (is_pos s)) lead 1 trail false) as [r la ts tz| | |] eqn:Dd.
    + destruct (decide_accept _ _ _ _ _ _ _ _ _ _ Dd) as (_ & _ & Er & _). cbn [head_before andb] in Er. rewrite andb_false_r in Er. subst r.
      rewrite (K1 (ex_intro _ _ (ex_intro _ _ (ex_intro _ _ (ex_intro _ _ eq_refl))))). split; [reflexivity|intros _; eauto].
    + split; [intros [y X]; discriminate X|]. intros E. destruct (allowed sh (BodyLit (is_pos s)) (Z.of_nat trail - Z.of_nat lead) false) eqn:Al; try discriminate. destruct (K2 eq_refl) as (r & la & ts & tz & X). discriminate X.
    + split; [intros [y X]; discriminate X|]. intros E. destruct (allowed sh (BodyLit (is_pos s)) (Z.of_nat trail - Z.of_nat lead) false) eqn:Al; try discriminate. destruct (K2 eq_refl) as (r & la & ts & tz & X). discriminate X.
    + split; [intros [y X]; discriminate X|]. intros E. destruct (allowed sh (BodyLit (is_pos s)) (Z.of_nat trail - Z.of_nat lead) false) eqn:Al; try discriminate. destruct (K2 eq_refl) as (r & la & ts & tz & X). discriminate X.
  - pose proof (decide_is_accept sh (BodyLit (is_pos s)) 0 0 true eq_refl (fun _ => conj eq_refl eq_refl)) as [K1 K2]. change (Z.of_nat 0 - Z.of_nat 0)%Z with 0%Z in K1, K2.
    destruct (decide sh (BodyLit (is_pos s)) 0 1 0 true) as [r la ts tz| | |] eqn:Dd.
    + destruct (decide_accept _ _ _ _ _ _ _ _ _ _ Dd) as (_ & _ & Er & _). cbn in Er. subst r.
      rewrite (K1 (ex_intro _ _ (ex_intro _ _ (ex_intro _ _ (ex_intro _ _ eq_refl))))). split; [reflexivity|intros _; eauto].
    + split; [intros [y X]; discriminate X|]. intros E. destruct (allowed sh (BodyLit (is_pos s)) 0 true) eqn:Al; try discriminate. destruct (K2 eq_refl) as (r & la & ts & tz & X). discriminate X.
    + split; [intros [y X]; discriminate X|]. intros E. destruct (allowed sh (BodyLit (is_pos s)) 0 true) eqn:Al; try discriminate. destruct (K2 eq_refl) as (r & la & ts & tz & X). discriminate X.
    + split; [intros [y X]; discriminate X|]. intros E. destruct (allowed sh (BodyLit (is_pos s)) 0 true) eqn:Al; try discriminate. destruct (K2 eq_refl) as (r & la & ts & tz & X). discriminate X.
  - split; [reflexivity|intros _; eauto].
  - split; [reflexivity|intros _; eauto].
  - assert (is_constraint_gen (is_rule sh) (head_is_literal sh) (atom_is_boolconst sh) (atom_is_symbolic sh) (value sh) (nosign sh) = Some (is_constraint_spec sh)) as ->
      by (destruct sh as [r l b sy v n]; destruct r, l, b, sy, v, n; reflexivity).
    destruct (tel_ctx_spec (negb (is_pos s)) (is_constraint_spec sh)) as [-> _].
    destruct (negb (negb (is_pos s)) && negb (is_constraint_spec sh)); cbn [negb].
    + split; [intros [y X]; discriminate X|intros X; discriminate X].
    + split; [reflexivity|intros _; eauto].
Qed.
Lemma tr_body_some sh : forall l, (exists y, tr_body A sh l = Some y) <-> forallb (lit_allowed sh) l = true.
Proof.
  induction l as [|x l IH]; cbn [tr_body forallb]; [split; [reflexivity|intros _; eauto]|].
  rewrite andb_true_iff, <- IH, <- (tr_blit_some sh x). split.
  - intros [y E]. destruct (tr_blit A sh x) as [[y1 m1]|]; [|discriminate]. destruct (tr_body A sh l) as [[ys m2]|]; [|discriminate]. split; eauto.
  - intros [[y1 E1] [y2 E2]]. rewrite E1, E2. destruct y1, y2. eauto.
Qed.
(* a rule of the fragment is accepted by the transformer exactly if every atom of it stands at an allowed placement (Proofs/CtxProofs.allowed, written
   from the property text): future atoms only in the head of a normal rule or in a constraint, past / initially atoms not in a positive head, theory
   atoms not in a positive body literal of a non-constraint *)
Theorem rule_accepted_iff_all_placements_allowed (r : frule A) :
  (exists t, transform_rule A r = Some t) <-> head_allowed (fh A r) = true /\ forallb (lit_allowed (shape_of A (fh A r))) (fb A r) = true.
Proof.
  unfold transform_rule. rewrite <- (tr_body_some (shape_of A (fh A r)) (fb A r)).
  assert ((exists y, tr_head A (fh A r) = Some y) <-> head_allowed (fh A r) = true) as Hh.
  { destruct (fh A r) as [a n|l|l| |] eqn:Hf; cbn [tr_head head_allowed]; [| | |split; [intros _; reflexivity|intros _; eexists; reflexivity]|split; [intros _; reflexivity|intros _; eexists; reflexivity]].
    - pose proof (decide_is_accept (shape_of A (FNorm A a n)) HeadLit 0 n false eq_refl (fun X => ltac:(discriminate X))) as [K1 K2]. replace (Z.of_nat n - Z.of_nat 0)%Z with (Z.of_nat n) in K1, K2 by lia.
      destruct (decide (shape_of A (FNorm A a n)) HeadLit 0 1 n false) as [ren la ts tz| | |] eqn:Dd.
      + destruct (decide_accept _ _ _ _ _ _ _ _ _ _ Dd) as (_ & _ & _ & El). cbn [head_before lit_nosign shape_of nosign andb negb] in El. rewrite andb_false_r in El. subst la.
        rewrite (K1 (ex_intro _ _ (ex_intro _ _ (ex_intro _ _ (ex_intro _ _ eq_refl))))). split; [reflexivity|intros _; eauto].
      + split; [intros [y X]; discriminate X|]. intros E. destruct (allowed (shape_of A (FNorm A a n)) HeadLit (Z.of_nat n) false) eqn:Al; try discriminate. destruct (K2 eq_refl) as (r0 & la & ts & tz & X). discriminate X.
      + split; [intros [y X]; discriminate X|]. intros E. destruct (allowed (shape_of A (FNorm A a n)) HeadLit (Z.of_nat n) false) eqn:Al; try discriminate. destruct (K2 eq_refl) as (r0 & la & ts & tz & X). discriminate X.
      + split; [intros [y X]; discriminate X|]. intros E. destruct (allowed (shape_of A (FNorm A a n)) HeadLit (Z.of_nat n) false) eqn:Al; try discriminate. destruct (K2 eq_refl) as (r0 & la & ts & tz & X). discriminate X.
    - assert (plain_elem (shape_of A (FDisj A l)) = true) as -> by reflexivity. split; [intros _; reflexivity|intros _; eexists; reflexivity].
    - assert (plain_elem (shape_of A (FChoice A l)) = true) as -> by reflexivity. split; [intros _; reflexivity|intros _; eexists; reflexivity]. }
  rewrite <- Hh. split.
  - intros [t E]. destruct (tr_head A (fh A r)) as [[hd fut]|]; [|discriminate]. destruct (tr_body A (shape_of A (fh A r)) (fb A r)) as [[bd m]|]; [|discriminate]. split; eauto.
  - intros [[[hd fut] E1] [[bd m] E2]]. rewrite E1, E2. eauto.
Qed.
End Accept.

(* totality (C15): the translation of a program of the fragment fails exactly when one of its rules is rejected (the diagnostic case of
   rule_accepted_iff_all_placements_allowed); the regenerated look-ahead test never takes the branch in which the Python expression would raise *)
Section Total.
Variable A : Type.
Variable leA : A -> A -> bool.
Lemma lookahead_part_total z f : lookahead_part_gen z f <> None.
Proof.
  cbv beta iota delta [lookahead_part_gen pand por pnot olift2 option_map]. destruct f;
  repeat match goal with |- context [match ?x with _ => _ end] => destruct x end; discriminate.
Qed.
Lemma step_none_iff o r : step A leA (Some o) r = None <-> transform_rule A r = None.
Proof.
  unfold step. destruct (transform_rule A r) as [t|]; [|split; reflexivity].
  pose proof (lookahead_part_total (Z.of_nat (t_shift A t)) (is_final (fp A r))) as H.
  destruct (lookahead_part_gen (Z.of_nat (t_shift A t)) (is_final (fp A r))) as [[|]|]; [split; discriminate|split; discriminate|contradiction].
Qed.
Lemma fold_step_none P : fold_left (step A leA) P None = None.
Proof. induction P as [|r P IH]; [reflexivity|exact IH]. Qed.
Lemma fold_step_total P : forall o, fold_left (step A leA) P (Some o) = None <-> exists r, In r P /\ transform_rule A r = None.
Proof.
  induction P as [|r P IH]; intros o; cbn [fold_left].
  - split; [discriminate|intros (r & [] & _)].
  - destruct (step A leA (Some o) r) as [o'|] eqn:E.
    + rewrite IH. split; intros (r' & Hin & Hr); exists r'; (split; [|exact Hr]); [now right|].
      destruct Hin as [<-|Hin]; [|exact Hin]. apply (step_none_iff o) in Hr. congruence.
    + rewrite fold_step_none. split; [intros _|reflexivity]. exists r. split; [now left|]. now apply (step_none_iff o).
Qed.
Theorem transform_program_total (P : list (frule A)) :
  transform_program A leA P = None <-> exists r, In r P /\ transform_rule A r = None.
Proof.
  unfold transform_program. rewrite <- (fold_step_total P (empty A)).
  destruct (fold_left (step A leA) P (Some (empty A))); split; congruence.
Qed.
End Total.
Theorem transform_program_fails_iff_forbidden_placement (A : Type) (leA : A -> A -> bool) (P : list (frule A)) :
  transform_program A leA P = None <->
  exists r, In r P /\ ~ (head_allowed A (fh A r) = true /\ forallb (lit_allowed A (shape_of A (fh A r))) (fb A r) = true).
Proof.
  rewrite transform_program_total. split; intros (r & Hin & Hr); exists r; (split; [exact Hin|]).
  - rewrite <- rule_accepted_iff_all_placements_allowed. intros [t E]. congruence.
  - rewrite <- rule_accepted_iff_all_placements_allowed in Hr. destruct (transform_rule A r) as [t|]; [|reflexivity]. exfalso. apply Hr. now exists t.
Qed.
(* the positive side (C11): a program is translated exactly if every atom of every rule stands at an allowed placement *)
Theorem transform_program_accepts_iff (A : Type) (leA : A -> A -> bool) (P : list (frule A)) :
  (exists o, transform_program A leA P = Some o) <->
  forall r, In r P -> head_allowed A (fh A r) = true /\ forallb (lit_allowed A (shape_of A (fh A r))) (fb A r) = true.
Proof.
  split.
  - intros [o E] r Hin. rewrite <- rule_accepted_iff_all_placements_allowed. destruct (transform_rule A r) as [t|] eqn:Er; [now exists t|].
    assert (transform_program A leA P = None) as N by (apply transform_program_total; exists r; split; assumption). congruence.
  - intros H. destruct (transform_program A leA P) as [o|] eqn:E; [now exists o|]. apply transform_program_total in E. destruct E as (r & Hin & Er).
    apply H in Hin. rewrite <- rule_accepted_iff_all_placements_allowed in Hin. destruct Hin as [t Et]. congruence.
Qed.
