(* The representation strings of HEAD formulas (theory/head.py: FormulaToStr - the key under which Theory.add_formula shares head formulas), REGENERATED
   method by method (Gen/FromReps.v: hrep_*_gen), are injective on the head formulas of the model (Model/HeadShift.v: atoms with classical sign, constants,
   negation, n-fold weak / strong next, until / release with and without left operand, conjunction, disjunction).  The literal pieces of the format strings are taken character by character, as for the body classes; since an atom of a head
   formula is printed without parentheses around it (`p` is a prefix of `p(1)`), the statement is proved for representations followed by what can follow a
   sub-formula inside a representation: nothing, a closing parenthesis, or the first character of a binary operator. *)
From Coq Require Import List Bool Arith String Ascii Lia.
Require Import GenPrelude FromReps HeadShift.
Import ListNotations.
Local Open Scope string_scope.
Local Open Scope list_scope.
Definition hatom := (bool * nat * option nat)%type.        (* classical sign, name, argument list (none: no parentheses) *)
Notation hf := (HeadShift.hf hatom).
Definition args_tok (a : option nat) : option rtok := option_map RArgs a.
Fixpoint hrep (f : hf) : list rtok :=
  match f with
  | HAt _ (p, n, a) => hrep_atom_gen p (RName n) (args_tok a)
  | HConst _ b => hrep_constant_gen b
  | HNeg _ x => hrep_negation_gen (hrep x)
  | HNx _ n w x => hrep_next_gen n w (hrep x)
  | HUn _ u l r => hrep_until_gen u (Some (hrep l)) (hrep r)
  | HUn1 _ u r => hrep_until_gen u None (hrep r)
  | HAnd _ x y => hrep_clause2_gen true (hrep x) (hrep y)
  | HOr _ x y => hrep_clause2_gen false (hrep x) (hrep y)
  end.
Fixpoint hsize (f : hf) : nat :=
  match f with
  | HAt _ _ | HConst _ _ => 1
  | HNeg _ x | HNx _ _ _ x | HUn1 _ _ x => S (hsize x)
  | HUn _ _ x y | HAnd _ x y | HOr _ x y => S (hsize x + hsize y)
  end.
Definition flat1 (t : rtok) : list rtok := match t with RL s => map RC (list_ascii_of_string s) | t => [t] end.
Definition flat (l : list rtok) : list rtok := flat_map flat1 l.
Lemma flat_app a b : flat (a ++ b) = flat a ++ flat b.  Proof. apply flat_map_app. Qed.
Definition chrep (f : hf) : list rtok := flat (hrep f).
(* what can stand behind a sub-formula *)
Definition follows (s : list rtok) : Prop :=
  match s with [] => True | RC c :: _ => c = ")"%char \/ c = "&"%char \/ c = "|"%char \/ c = ">"%char | _ => False end.
Ltac unfold_hreps := unfold hrep_atom_gen, hrep_constant_gen, hrep_negation_gen, hrep_next_gen, hrep_until_gen, hrep_clause2_gen, args_tok in *.
Ltac hnorm := repeat rewrite <- app_assoc in *; cbn [app option_map] in *.
Ltac hsmall := repeat match goal with b : bool |- _ => destruct b | o : option nat |- _ => destruct o end.
Ltac hflatten E := unfold chrep in E; cbn [hrep] in E; unfold_hreps; hsmall; repeat rewrite flat_app in E; cbn [flat flat_map flat1 list_ascii_of_string map app option_map] in E.
Ltac solve_follows := cbn [follows app]; first [exact I | tauto | (left; reflexivity) | (right; left; reflexivity) | (right; right; left; reflexivity) | (right; right; right; reflexivity)].
Ltac absurd_follows :=
  match goal with
  | F : follows (_ :: _) |- _ => cbn [follows] in F; first [contradiction | (destruct F as [F|[F|[F|F]]]; discriminate F)]
  end.
(* a sub-formula against literal characters: one look inside the sub-formula decides *)
Ltac sub_vs_tokens H a RF :=
  destruct a as [[[? ?] ?]|?|?|? ? ?|? ? ?|? ?|? ?|? ?]; rewrite <- RF in H; hflatten H; hnorm; first [discriminate H | (injection H; intros; discriminate)].
Ltac hcompare Sub RF :=
  repeat (hnorm; repeat rewrite RF in *; match goal with
  | E : chrep ?a ++ _ = chrep ?b ++ _ |- _ => apply Sub in E; [destruct E as [? ?] | cbn [hsize] in *; lia | solve_follows | solve_follows]
  | E : chrep ?a ++ _ = _ :: _ |- _ => exfalso; sub_vs_tokens E a RF
  | E : _ :: _ = chrep ?a ++ _ |- _ => exfalso; symmetry in E; sub_vs_tokens E a RF
  | E : _ :: _ = _ :: _ |- _ => first [discriminate E | injection E; clear E; intros]
  | E : RC _ = RC _ |- _ => first [discriminate E | clear E]
  | E : RN _ = RN _ |- _ => injection E; clear E; intros
  | E : RName _ = RName _ |- _ => injection E; clear E; intros
  | E : RArgs _ = RArgs _ |- _ => injection E; clear E; intros
  end).
Theorem hrep_injective_gen : forall n x, hsize x <= n -> forall y s s', follows s -> follows s' -> chrep x ++ s = chrep y ++ s' -> x = y /\ s = s'.
Proof.
  induction n as [|n IH]; intros x Sx y s s' Fs Fs' E.
  - destruct x; cbn in Sx; lia.
  - assert (forall a b r r', hsize a <= n -> follows r -> follows r' -> chrep a ++ r = chrep b ++ r' -> a = b /\ r = r') as Sub by (intros a b r r' Sa F1 F2; now apply IH).
    assert (forall f : hf, flat_map flat1 (hrep f) = chrep f) as RF by reflexivity.
    clear IH.
    destruct x as [[[p1 n1] a1]|b1|x1|m1 w1 x1|u1 l1 r1|u1 r1|x1 y1|x1 y1];
    destruct y as [[[p2 n2] a2]|b2|x2|m2 w2 x2|u2 l2 r2|u2 r2|x2 y2|x2 y2];
    cbn [hsize] in Sx; hflatten E; hnorm; try discriminate E;
    hcompare Sub RF; subst; try absurd_follows; split; reflexivity.
Qed.
Theorem hrep_injective (f g : hf) : flat (hrep f) = flat (hrep g) -> f = g.
Proof.
  intros E. assert (chrep f ++ [] = chrep g ++ []) as E' by (unfold chrep; now rewrite !app_nil_r).
  exact (proj1 (hrep_injective_gen (hsize f) f (le_n _) g [] [] I I E')).
Qed.
(* the arguments of an atom are separated by a comma in both representations (so p(1,2) and p(12) print differently) *)
Lemma argument_separators : hrep_args_separator_gen = "," /\ rep_args_separator_gen = ",".
Proof. split; reflexivity. Qed.
Example head_weak_and_strong_differ : flat (hrep (HNx _ 1 true (HAt _ (true, 0, None)))) <> flat (hrep (HNx _ 1 false (HAt _ (true, 0, None)))).
Proof. intros E; discriminate E. Qed.
