(* The last link of the body theory: the ground THEORY ATOMS.  Theory.translate attaches the literal of every new ground &tel / &del atom to its
   (formula, state) pair (BodyFormula.add_atom) and, when that pair is translated, makes the attached literals equal to the literal of the pair
   (BodyFormula.translate: make_equal for everything on data.todo; for classes that define a fresh literal the first attached theory literal itself
   is taken as that literal - an equality that holds by construction).  Model: after a call of theory_translate every root (formula, state) is
   cached, and the tie of a theory atom is the pair (atom, literal cached for its root); ties persist because cached literals never change.
   Theorem: in every assignment that violates no constraint of the body theory and respects the ties, every theory atom ever attached has the
   LTLf / LDLf value of its formula at its state, at the CURRENT horizon. *)
From Coq Require Import List Bool Arith ZArith Lia.
Require Import GenPrelude TheoryPrelude FromTheory TheorySem Leaf_theory Leaf_dynamic BodyTheoryFull.
Import ListNotations.
Section TA.
Variable A : Type.
Variable D : forall a b : A, {a = b} + {a <> b}.
Notation st := (st A).
Notation bf := (bf A).
Notation lit := (lit A).
Record tie := { t_atom : nat; t_f : bf; t_k : nat; t_l : lit }.
Definition TInv (s : st) (ts : list tie) : Prop := forall x, In x ts -> cached A D s (t_f x) (t_k x) (t_l x).
Definition ok_ties (T : trace A) (v : nat -> bool) (tv : nat -> bool) (ts : list tie) : Prop := forall x, In x ts -> tv (t_atom x) = ev A T v (t_l x).
(* the ties of the new theory atoms: (atom id, root) pairs -> the literal cached for the root *)
Fixpoint link (s : st) (roots : list (nat * (nat * bf))) : option (list tie) :=
  match roots with
  | [] => Some []
  | (t, (k, f)) :: r =>
      match lookup A D s f k, link s r with
      | Some (l, _), Some ts => Some ({| t_atom := t; t_f := f; t_k := k; t_l := l |} :: ts)
      | _, _ => None
      end
  end.
Lemma run_list_cached fuel h : forall r todo s s', Inv A D h todo s -> (forall p, In p todo -> In p r) -> (forall p, In p r -> fst p <= h) ->
  run_list A D fuel h r s = Some s' ->
  (forall f k l, cached A D s f k l -> cached A D s' f k l) /\ (forall p, In p r -> exists l, cached A D s' (snd p) (fst p) l).
Proof.
  induction r as [|[k f] r IH]; intros todo s s' I Sub Bd Run; cbn [run_list] in Run.
  - inversion Run; subst. split; [auto|intros p []].
  - destruct (translate A D fuel h f k s) as [[l s1]|] eqn:Tr; [|discriminate].
    assert (k <= h) as Hk by (apply (Bd (k, f)); now left).
    destruct (translate_inv A D boolean_clauses_spec tel_clauses_spec make_equal_spec fuel h todo f k s l s1 I Hk Tr) as [I1 [X1 C1]].
    destruct (IH (filter (neqb A D k f) todo) s1 s') as [K1 K2]; [| | |exact Run|].
    + apply Inv_drop; [exact I1|]. intros n w x l0 -> L0.
      exact (nx_resolved_or_requeued A D fuel h todo n w x k s l s1 I Tr l0 L0).
    + intros p Hp. apply filter_In in Hp as [Hp NB]. pose proof (Sub p Hp) as Sp. cbn [In] in Sp. destruct Sp as [E|Hr]; [|exact Hr]. subst p.
      assert (neqb A D k f (k, f) = false) as X by (unfold neqb; cbn [fst snd]; rewrite Nat.eqb_refl; destruct (bf_eq_dec A D f f) as [_|N]; [reflexivity|contradiction]).
      rewrite X in NB. discriminate NB.
    + intros p Hp. apply Bd. now right.
    + split.
      * intros f' k' l' C'. apply K1. now apply (ext_cached A D s s1).
      * intros p [<-|Hp]; [exists l; apply K1; exact C1|now apply K2].
Qed.
(* one call of Theory.translate: old ties stay valid, every new root is cached, so the new theory atoms can be tied *)
Theorem link_step fuel h s roots s' (ids : list (nat * (nat * bf))) ts :
  Inv A D h [] s -> (forall p, In p (pending A s) -> fst p <= S h) -> (forall p, In p roots -> fst p <= S h) -> (forall r, In r ids -> In (snd r) roots) ->
  theory_translate A D fuel (S h) roots s = Some s' -> TInv s ts ->
  exists new, link s' ids = Some new /\ TInv s' (new ++ ts) /\ map t_atom new = map fst ids.
Proof.
  intros I Bp Br Sub Run TI. unfold theory_translate in Run.
  destruct (run_list_cached fuel (S h) (rev (pending A s) ++ roots) (pending A s) (clear_pending A s) s' (Inv_next_horizon A D h s I)) as [K1 K2]; [| |exact Run|].
  - intros p Hp. apply in_or_app. left. now apply in_rev in Hp.
  - intros p Hp. apply in_app_or in Hp as [Hp|Hp]; [apply Bp; now apply in_rev|now apply Br].
  - assert (forall f k l, cached A D s f k l -> cached A D s' f k l) as Keep by (intros f k l C; apply K1; exact C).
    assert (exists new, link s' ids = Some new /\ (forall x, In x new -> cached A D s' (t_f x) (t_k x) (t_l x)) /\ map t_atom new = map fst ids) as (new & E & Cn & Em).
    { clear TI. induction ids as [|[t [k f]] ids IH]; cbn [link map].
      - exists []. split; [reflexivity|]. split; [intros x []|reflexivity].
      - destruct (K2 (k, f)) as [l [d L]]; [apply in_or_app; right; apply (Sub (t, (k, f))); now left|]. cbn [fst snd] in L. rewrite L.
        destruct IH as (new & E & Cn & Em); [intros r Hr; apply Sub; now right|]. rewrite E. eexists. split; [reflexivity|]. split.
        + intros x [<-|Hx]; [cbn; now exists d|now apply Cn].
        + cbn [map t_atom fst]. now rewrite Em. }
    exists new. split; [exact E|]. split; [|exact Em]. intros x Hx. apply in_app_or in Hx as [Hx|Hx]; [now apply Cn|apply Keep; now apply TI].
Qed.
(* every theory atom has the value of its formula at its state, at the current horizon *)
Theorem theory_atom_value h s ts : Inv A D h [] s -> Wf A D s -> TInv s ts ->
  forall (T : trace A) (v tv : nat -> bool), ok_cls A T v s -> ok_ext A D v s -> ok_ties T v tv ts ->
  forall x, In x ts -> tv (t_atom x) = lsat A h T (t_f x) (t_k x).
Proof.
  intros I W TI T v tv Oc Oe Ot x Hx. rewrite (Ot x Hx). exact (value_full A D (reduce_eqs_hold A) h s I W T v Oc Oe (t_f x) (t_k x) (t_l x) (TI x Hx)).
Qed.
(* ... and is therefore determined by the trace: two assignments that satisfy everything agree on all theory atoms *)
Corollary theory_atoms_determined h s ts : Inv A D h [] s -> Wf A D s -> TInv s ts ->
  forall (T : trace A) (v tv v' tv' : nat -> bool), ok_cls A T v s -> ok_ext A D v s -> ok_ties T v tv ts -> ok_cls A T v' s -> ok_ext A D v' s -> ok_ties T v' tv' ts ->
  forall x, In x ts -> tv (t_atom x) = tv' (t_atom x).
Proof.
  intros I W TI T v tv v' tv' Oc Oe Ot Oc' Oe' Ot' x Hx.
  now rewrite (theory_atom_value h s ts I W TI T v tv Oc Oe Ot x Hx), (theory_atom_value h s ts I W TI T v' tv' Oc' Oe' Ot' x Hx).
Qed.
End TA.
