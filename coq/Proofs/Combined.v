(* Core rules and look-ahead constraints in ONE program: the equilibrium models of the program accumulated by the
   incremental run (core instances of Model/CoreRun.v together with the temporary/permanent instances of Model/Window.v)
   are exactly the temporal stable models of all rules together. *)
From Coq Require Import List Bool Arith ZArith Lia.
Require Import HT TEL TELext DecP CoreRun Window.
Section Combined.
Variable A : Type.
Variable h : nat.
Variable P1 : list (CoreRun.srule A).     (* core rules: every head form, past / initially / keyword body literals, four parts *)
Variable P2 : list (Window.crule A).      (* integrity constraints with future atoms of any depth, three parts *)
Definition tmodel12 (H T : trace A) : Prop := CoreRun.tmodel A h P1 H T /\ Window.tmodel A P2 h H T.
Definition tsm12 (T : trace A) : Prop := tmodel12 T T /\ forall H, CoreRun.tstrict A h H T -> ~ tmodel12 H T.
Definition prog12 : theory (gatom A) := union _ (CoreRun.prog A h P1) (of_list _ (Window.rules A P2 h)).
Lemma model12 H T : agrees _ (dec A h) H -> agrees _ (dec A h) T -> (modelP _ H T prog12 <-> tmodel12 (tr A H) (tr A T)).
Proof.
  intros AgH AgT. unfold prog12, tmodel12. rewrite <- (CoreRun.model_prog A h P1 H T AgH AgT), <- (Window.C02_window A P2 h H T AgH AgT).
  unfold modelP, union. split.
  - intros M. split; intros f Hf; apply M; [now left|now right].
  - intros [M1 M2] f [Hf|Hf]; [now apply M1|now apply M2].
Qed.
Lemma tmodel12_ext H H' T : (forall k a, k <= h -> H k a = H' k a) -> tmodel12 H T -> tmodel12 H' T.
Proof.
  intros E [M1 M2]. split.
  - intros r k Hr Hk Adm. rewrite <- (tsat_ext A h H T H' T E (fun _ _ _ => eq_refl)) by exact Hk. now apply M1.
  - intros r k Hr Hk Adm. rewrite <- (tsat_ext A h H T H' T E (fun _ _ _ => eq_refl)) by exact Hk. now apply M2.
Qed.
Theorem combined_exact (T' : interp (gatom A)) :
  equilibriumP _ T' (union _ prog12 (aux_theory _ (dec A h))) <-> agrees _ (dec A h) T' /\ tsm12 (tr A T').
Proof.
  rewrite decided_elimP. split.
  - intros [AgT [M Min]]. split; [assumption|]. split; [now apply model12|].
    intros H [Hle [k [a [Hk [Ht Hh]]]]] MH. apply (Min (lift A h H)).
    + split.
      * intros [b t|t|t]; cbn.
        -- destruct ((0 <=? t)%Z && (t <=? Z.of_nat h)%Z) eqn:E; [|discriminate].
           apply andb_true_iff in E as [E1 E2]. apply Z.leb_le in E1, E2. intros Hb.
           apply (Hle (Z.to_nat t) b) in Hb; [|lia]. unfold tr in Hb. now rewrite Z2Nat.id in Hb by lia.
        -- intros E. now rewrite (AgT (GI A t) _ eq_refl).
        -- intros E. now rewrite (AgT (GF A t) _ eq_refl).
      * exists (GU A a (Z.of_nat k)). split; [exact Ht|]. change (tr A (lift A h H) k a = false). now rewrite tr_lift.
    + apply lift_agrees.
    + apply model12; [apply lift_agrees|assumption|]. apply (tmodel12_ext H); [|exact MH]. intros j b Hj. symmetry. now apply tr_lift.
  - intros [AgT [M Min]]. split; [assumption|]. split; [now apply model12|].
    intros H [Hle [g [Hg1 Hg2]]] AgH MH. apply (Min (tr A H)).
    + split.
      * intros k a _ Hka. apply Hle. exact Hka.
      * destruct g as [a t|t|t].
        -- destruct (dec A h (GU A a t)) as [b|] eqn:E.
           ++ rewrite (AgT _ _ E) in Hg1. rewrite (AgH _ _ E) in Hg2. congruence.
           ++ apply in_range_dec in E as [k [Hk ->]]. exists k, a. auto.
        -- rewrite (AgT (GI A t) _ eq_refl) in Hg1. rewrite (AgH (GI A t) _ eq_refl) in Hg2. congruence.
        -- rewrite (AgT (GF A t) _ eq_refl) in Hg1. rewrite (AgH (GF A t) _ eq_refl) in Hg2. congruence.
    + now apply model12.
Qed.
End Combined.
