(* The formula table of Theory and the per-step data of the body formulas are keyed by the representation string (_rep) of a formula: two formulas
   with one representation are one entry.  The representation of every class is REGENERATED from its __init__ (Gen/FromReps.v) as a list of tokens - a
   number, a name, an argument list are ONE token each; the literal pieces of the format strings are taken CHARACTER BY CHARACTER (`flat`), so that pieces
   that run into one another - "(<*" against "(" followed by "<*" - are seen as what they are (what is still abstracted from: names and arguments print
   injectively and contain none of the operator characters at their ends).  Theorem: on the formulas of the model (all operators of &tel bodies, &del
   with its path expressions) the flattened representation is injective - no two different formulas share an entry. *)
From Coq Require Import List Bool Arith String Ascii Lia.
Require Import GenPrelude TheoryPrelude FromReps LDL.
Require BodyTheoryFull.
Import ListNotations.
Module F := BodyTheoryFull.
Local Open Scope string_scope.
Local Open Scope list_scope.
Definition atom := (bool * nat * nat)%type.            (* classical sign, name, argument list *)
Notation bf := (F.bf atom).
Notation path := (LDL.path atom).
Definition bool_str (op : boolop) : string := match op with OpAnd => "&" | OpOr => "|" | OpLImp => "<-" | OpRImp => "->" | OpEqv => "<>" end.
Definition tel_str (op : telop) : string := match op with OpSince => "<?" | OpTrigger => "<*" | OpUntil => ">?" | OpRelease => ">*" end.
Definition rep_leaf (t : LDL.tst atom) : list rtok :=           (* CheckPath is given a formula: the atom or constant of the test *)
  match t with TAtom _ (p, n, a) => rep_atom_gen p (RName n) (RArgs a) | TConst _ b => rep_constant_gen b end.
Fixpoint prep (p : path) : list rtok :=
  match p with
  | Skip _ => rep_skip_gen
  | Test _ t => rep_check_gen (rep_leaf t)
  | Choice _ l r => rep_choice_gen (prep l) (prep r)
  | Seq _ l r => rep_sequence_gen (prep l) (prep r)
  | Star _ q => rep_star_gen (prep q)
  end.
Fixpoint rep (f : bf) : list rtok :=
  match f with
  | F.At _ (p, n, a) => rep_atom_gen p (RName n) (RArgs a)
  | F.Cst _ b => rep_constant_gen b
  | F.Neg _ x => rep_negation_gen (rep x)
  | F.Bin _ op x y => rep_boolean_gen (bool_str op) (rep x) (rep y)
  | F.Pv _ n w x => rep_previous_gen n w (rep x)
  | F.Ini _ x => rep_initially_gen (rep x)
  | F.Nx _ n w x => rep_next_gen n w (rep x)
  | F.TN2 _ u l r => rep_teln_gen (tel_str (F.nop u)) (Some (rep l)) (rep r)
  | F.TN1 _ u r => rep_teln_gen (tel_str (F.nop u)) None (rep r)
  | F.TP2 _ u l r => rep_telp_gen (tel_str (F.pop u)) (Some (rep l)) (rep r)
  | F.TP1 _ u r => rep_telp_gen (tel_str (F.pop u)) None (rep r)
  | F.Dia _ p g => rep_diamond_gen (prep p) (rep g)
  | F.Box _ p g => rep_box_gen (prep p) (rep g)
  end.
(* the characters of the literal pieces *)
Definition flat1 (t : rtok) : list rtok := match t with RL s => map RC (list_ascii_of_string s) | t => [t] end.
Definition flat (l : list rtok) : list rtok := flat_map flat1 l.
Lemma flat_app a b : flat (a ++ b) = flat a ++ flat b.  Proof. apply flat_map_app. Qed.
Ltac unfold_reps := unfold rep_atom_gen, rep_constant_gen, rep_negation_gen, rep_boolean_gen, rep_previous_gen, rep_initially_gen, rep_next_gen, rep_telp_gen, rep_teln_gen,
  rep_diamond_gen, rep_box_gen, rep_skip_gen, rep_choice_gen, rep_sequence_gen, rep_check_gen, rep_star_gen in *.
Lemma rep_leaf_is_rep t : rep_leaf t = rep (F.tbf atom t).
Proof. destruct t as [[[p n] a]|b]; reflexivity. Qed.
(* formulas and paths together: an item *)
Inductive item := IF (f : bf) | IP (p : path).
Definition irep (x : item) : list rtok := match x with IF f => rep f | IP p => prep p end.
Fixpoint psize (p : path) : nat := match p with Skip _ => 1 | Test _ _ => 2 | Choice _ l r | Seq _ l r => S (psize l + psize r) | Star _ q => S (psize q) end.
Fixpoint fsize (f : bf) : nat :=
  match f with
  | F.At _ _ | F.Cst _ _ => 1
  | F.Neg _ x | F.Pv _ _ _ x | F.Ini _ x | F.Nx _ _ _ x | F.TN1 _ _ x | F.TP1 _ _ x => S (fsize x)
  | F.Bin _ _ x y | F.TN2 _ _ x y | F.TP2 _ _ x y => S (fsize x + fsize y)
  | F.Dia _ p g | F.Box _ p g => S (psize p + fsize g)
  end.
Definition isize (x : item) : nat := match x with IF f => fsize f | IP p => psize p end.
Definition cirep (x : item) : list rtok := flat (irep x).
Lemma cirep_head x : exists t, cirep x = RC "("%char :: t.
Proof.
  unfold cirep. destruct x as [f|p]; [destruct f as [[[p n] a]|b|x|op x y|n w x|x|n w x|u l r|u r|u l r|u r|p g|p g]|destruct p as [|t|l r|l r|q]];
    cbn [irep rep prep]; try rewrite rep_leaf_is_rep; unfold_reps; try destruct b; repeat rewrite flat_app; cbn; eauto.
Qed.
Lemma bool_str_inj a b : bool_str a = bool_str b -> a = b.  Proof. destruct a, b; cbn; intros E; try reflexivity; discriminate. Qed.
Lemma tel_str_inj a b : tel_str a = tel_str b -> a = b.  Proof. destruct a, b; cbn; intros E; try reflexivity; discriminate. Qed.
Lemma nop_inj u v : F.nop u = F.nop v -> u = v.  Proof. destruct u, v; cbn; intros E; try reflexivity; discriminate. Qed.
Lemma pop_inj u v : F.pop u = F.pop v -> u = v.  Proof. destruct u, v; cbn; intros E; try reflexivity; discriminate. Qed.
Lemma tbf_inj (t t' : LDL.tst atom) : F.tbf atom t = F.tbf atom t' -> t = t'.
Proof. destruct t as [a|b], t' as [a'|b']; cbn; intros E; try discriminate; injection E as ->; reflexivity. Qed.
Lemma fsize_tbf t : fsize (F.tbf atom t) = 1.  Proof. destruct t; reflexivity. Qed.
Ltac norm := repeat rewrite <- app_assoc in *; cbn [app] in *.
Ltac head_vs_token H :=
  match type of H with
  | cirep ?a ++ _ = _ :: _ => let t := fresh "t" in let E := fresh "E" in
      destruct (cirep_head a) as [t E]; rewrite E in H; cbn [app] in H; first [discriminate H | injection H; intros; discriminate]
  | _ :: _ = cirep ?a ++ _ => let t := fresh "t" in let E := fresh "E" in
      destruct (cirep_head a) as [t E]; rewrite E in H; cbn [app] in H; first [discriminate H | injection H; intros; discriminate]
  end.
Ltac compare_all Sub RF RP :=
  repeat (norm; repeat rewrite RF in *; repeat rewrite RP in *; match goal with
  | E : cirep ?a ++ _ = cirep ?b ++ _ |- _ => apply Sub in E; [destruct E as [? ?] | cbn [isize fsize psize] in *; rewrite ?fsize_tbf; lia]
  | E : cirep _ ++ _ = _ :: _ |- _ => exfalso; head_vs_token E
  | E : _ :: _ = cirep _ ++ _ |- _ => exfalso; head_vs_token E
  | E : _ :: _ = _ :: _ |- _ => first [discriminate E | injection E; clear E; intros]
  | E : IF _ = IP _ |- _ => discriminate E
  | E : IP _ = IF _ |- _ => discriminate E
  | E : IF _ = IF _ |- _ => injection E; clear E; intros
  | E : IP _ = IP _ |- _ => injection E; clear E; intros
  | E : F.tbf _ _ = F.tbf _ _ |- _ => apply tbf_inj in E
  | E : RC _ = RC _ |- _ => first [discriminate E | clear E]
  | E : RL _ = RL _ |- _ => first [discriminate E | clear E]
  | E : RN _ = RN _ |- _ => injection E; clear E; intros
  | E : RName _ = RName _ |- _ => injection E; clear E; intros
  | E : RArgs _ = RArgs _ |- _ => injection E; clear E; intros
  end).
Ltac small_cases := repeat match goal with b : bool |- _ => destruct b | o : boolop |- _ => destruct o end.
Ltac flatten E := repeat rewrite flat_app in E; cbn [flat flat_map flat1 list_ascii_of_string map app] in E.
Theorem irep_injective : forall n x, isize x <= n -> forall y s s', cirep x ++ s = cirep y ++ s' -> x = y /\ s = s'.
Proof.
  induction n as [|n IH]; intros x Sx y s s' E.
  - destruct x as [f|p]; [destruct f|destruct p]; cbn in Sx; lia.
  - assert (forall a b r r', isize a <= n -> cirep a ++ r = cirep b ++ r' -> a = b /\ r = r') as Sub by (intros a b r r' Sa; now apply IH).
    assert (forall (f : bf), flat_map flat1 (rep f) = cirep (IF f)) as RF by reflexivity.
    assert (forall (p : path), flat_map flat1 (prep p) = cirep (IP p)) as RP by reflexivity.
    clear IH. unfold cirep in E.
    destruct x as [f|p].
    + destruct f as [[[p1 n1] a1]|b1|x1|op1 x1 y1|m1 w1 x1|x1|m1 w1 x1|u1 l1 r1|u1 r1|u1 l1 r1|u1 r1|p1 g1|p1 g1];
      (destruct y as [g|q]; [destruct g as [[[p2 n2] a2]|b2|x2|op2 x2 y2|m2 w2 x2|x2|m2 w2 x2|u2 l2 r2|u2 r2|u2 l2 r2|u2 r2|p2 g2|p2 g2] | destruct q as [|t2|l2 r2|l2 r2|q2]]);
      cbn [irep rep prep isize fsize psize] in E, Sx; try rewrite !rep_leaf_is_rep in E; unfold_reps; small_cases; cbn [bool_str tel_str F.nop F.pop] in E;
      flatten E; norm; try discriminate E;
      compare_all Sub RF RP; subst; split; reflexivity.
    + destruct p as [|t1|l1 r1|l1 r1|q1];
      (destruct y as [g|q]; [destruct g as [[[p2 n2] a2]|b2|x2|op2 x2 y2|m2 w2 x2|x2|m2 w2 x2|u2 l2 r2|u2 r2|u2 l2 r2|u2 r2|p2 g2|p2 g2] | destruct q as [|t2|l2 r2|l2 r2|q2]]);
      cbn [irep rep prep isize fsize psize] in E, Sx; try rewrite !rep_leaf_is_rep in E; unfold_reps; small_cases; cbn [bool_str tel_str F.nop F.pop] in E;
      flatten E; norm; try discriminate E;
      compare_all Sub RF RP; subst; split; reflexivity.
Qed.
Theorem rep_injective (f g : bf) : flat (rep f) = flat (rep g) -> f = g.
Proof.
  intros E. assert (cirep (IF f) ++ [] = cirep (IF g) ++ []) as E' by (unfold cirep; cbn [irep]; now rewrite !app_nil_r).
  destruct (irep_injective (isize (IF f)) (IF f) (le_n _) (IF g) [] [] E') as [H _]. now injection H.
Qed.
Theorem prep_injective (p q : path) : flat (prep p) = flat (prep q) -> p = q.
Proof.
  intros E. assert (cirep (IP p) ++ [] = cirep (IP q) ++ []) as E' by (unfold cirep; cbn [irep]; now rewrite !app_nil_r).
  destruct (irep_injective (isize (IP p)) (IP p) (le_n _) (IP q) [] [] E') as [H _]. now injection H.
Qed.
(* a formula is never mistaken for a path expression either *)
Theorem rep_is_not_a_path (f : bf) (p : path) : flat (rep f) <> flat (prep p).
Proof.
  intros E. assert (cirep (IF f) ++ [] = cirep (IP p) ++ []) as E' by (unfold cirep; cbn [irep]; now rewrite !app_nil_r).
  destruct (irep_injective (isize (IF f)) (IF f) (le_n _) (IP p) [] [] E') as [H _]. discriminate H.
Qed.
(* the keys of the tables: (step, representation) *)
Corollary table_key_injective (k k' : nat) (f g : bf) : (k, flat (rep f)) = (k', flat (rep g)) -> k = k' /\ f = g.
Proof. intros E. injection E as -> E. split; [reflexivity|now apply rep_injective]. Qed.
Example weak_and_strong_differ : flat (rep (F.Pv atom 1 true (F.At atom (true, 0, 0)))) <> flat (rep (F.Pv atom 1 false (F.At atom (true, 0, 0)))) /\
  flat (rep (F.At atom (true, 0, 0))) <> flat (rep (F.At atom (false, 0, 0))) /\ flat (prep (Choice atom (Skip atom) (Skip atom))) <> flat (prep (Seq atom (Skip atom) (Skip atom))).
Proof. repeat split; intros E; discriminate E. Qed.
