(* Correctness of the brute-force enumerator Oracle.tsm_enum that the end-to-end correspondence uses as its oracle:
   it returns exactly the bit sets (within the n*(h+1) bits of the finite universe) that satisfy the program classically and
   have no strictly smaller bit set satisfying it in the here-and-there sense. *)
From Coq Require Import List Bool Arith NArith Lia FinFun.
Import ListNotations.
Require Import HT TEL LDL Oracle.
Local Open Scope N_scope.
Definition bsub (x t : N) : Prop := forall i, N.testbit x i = true -> N.testbit t i = true.
(* x = acc plus some of the bits listed in [bits] *)
Definition between (bits : list N) (acc x : N) : Prop :=
  bsub acc x /\ forall i, N.testbit x i = true -> N.testbit acc i = true \/ In i bits.
Lemma setbit_spec acc b i : N.testbit (N.lor acc (N.shiftl 1 b)) i = N.testbit acc i || (b =? i).
Proof. rewrite N.lor_spec, N.shiftl_1_l, N.pow2_bits_eqb. reflexivity. Qed.
Lemma between_nil acc x : between [] acc x <-> x = acc.
Proof.
  split.
  - intros [S1 S2]. apply N.bits_inj. intros i. destruct (N.testbit x i) eqn:E.
    + destruct (S2 i E) as [H|[]]. now rewrite H.
    + destruct (N.testbit acc i) eqn:F; [|reflexivity]. apply S1 in F. congruence.
  - intros ->. split; [intros i H; exact H|intros i H; now left].
Qed.
Lemma between_cons b r acc x : between (b :: r) acc x <-> between r acc x \/ between r (N.lor acc (N.shiftl 1 b)) x.
Proof.
  split.
  - intros [S1 S2]. destruct (N.testbit x b) eqn:E.
    + right. split.
      * intros i. rewrite setbit_spec. intros H. apply orb_true_iff in H as [H|H]; [now apply S1|]. apply N.eqb_eq in H. now subst.
      * intros i H. rewrite setbit_spec. destruct (S2 i H) as [H1|[H1|H1]].
        -- left. now rewrite H1.
        -- left. subst. now rewrite N.eqb_refl, orb_true_r.
        -- now right.
    + left. split; [exact S1|]. intros i H. destruct (S2 i H) as [H1|[H1|H1]]; [now left| subst; congruence|now right].
  - intros [[S1 S2]|[S1 S2]].
    + split; [exact S1|]. intros i H. destruct (S2 i H) as [H1|H1]; [now left|right; now right].
    + split.
      * intros i H. apply S1. rewrite setbit_spec, H. reflexivity.
      * intros i H. destruct (S2 i H) as [H1|H1]; [|right; now right].
        rewrite setbit_spec in H1. apply orb_true_iff in H1 as [H1|H1]; [now left|]. apply N.eqb_eq in H1. right. now left.
Qed.
Lemma enum_spec p : forall bits acc out x, In x (enum bits acc p out) <-> In x out \/ (between bits acc x /\ p x = true).
Proof.
  induction bits as [|b r IH]; intros acc out x; cbn [enum].
  - rewrite between_nil. destruct (p acc) eqn:E; cbn [In]; split.
    + intros [<-|H]; [right; now split|now left].
    + intros [H|[-> _]]; [now right|now left].
    + intros H; now left.
    + intros [H|[-> H]]; [exact H|congruence].
  - rewrite IH, IH, between_cons. tauto.
Qed.
(* strict sub-sets: the flag records that some listed bit was left out *)
Lemma exists_sub_spec p : forall bits acc s, NoDup bits -> (forall b, In b bits -> N.testbit acc b = false) ->
  (exists_sub bits acc s p = true <-> exists x, between bits acc x /\ p x = true /\ (s = true \/ exists b, In b bits /\ N.testbit x b = false)).
Proof.
  induction bits as [|b r IH]; intros acc s ND Hacc; cbn [exists_sub].
  - rewrite andb_true_iff. split.
    + intros [-> Hp]. exists acc. split; [now apply between_nil|]. split; [exact Hp|now left].
    + intros (x & Hb & Hp & [->|(b & [] & _)]). apply between_nil in Hb. subst. now split.
  - inversion ND as [|? ? Hnin ND']; subst. rewrite orb_true_iff.
    rewrite (IH acc true ND') by (intros c Hc; apply Hacc; now right).
    rewrite (IH (N.lor acc (N.shiftl 1 b)) s ND').
    2:{ intros c Hc. rewrite setbit_spec, (Hacc c) by now right. cbn. apply N.eqb_neq. intros ->. contradiction. }
    split.
    + intros [(x & Hb & Hp & _)|(x & Hb & Hp & Hs)].
      * exists x. split; [apply between_cons; now left|]. split; [exact Hp|]. right. exists b. split; [now left|].
        destruct (N.testbit x b) eqn:E; [|reflexivity]. destruct Hb as [_ S2]. destruct (S2 b E) as [H|H]; [|contradiction].
        rewrite (Hacc b) in H by now left. discriminate.
      * exists x. split; [apply between_cons; now right|]. split; [exact Hp|]. destruct Hs as [->|(c & Hc & Hx)]; [now left|].
        right. exists c. split; [now right|exact Hx].
    + intros (x & Hb & Hp & Hs). apply between_cons in Hb as [Hb|Hb].
      * left. exists x. split; [exact Hb|]. split; [exact Hp|now left].
      * right. exists x. split; [exact Hb|]. split; [exact Hp|]. destruct Hs as [->|(c & [<-|Hc] & Hx)]; [now left| |right; now exists c].
        exfalso. destruct Hb as [S1 _]. assert (N.testbit x b = true) as Y by (apply S1; rewrite setbit_spec, N.eqb_refl; apply orb_true_r). congruence.
Qed.
Definition in_range (nbits : nat) (t : N) : Prop := forall i, N.testbit t i = true -> i < N.of_nat nbits.
Lemma all_bits_spec nbits i : In i (map N.of_nat (seq 0 nbits)) <-> i < N.of_nat nbits.
Proof.
  rewrite in_map_iff. split.
  - intros (k & <- & Hk). apply in_seq in Hk. lia.
  - intros H. exists (N.to_nat i). split; [lia|]. apply in_seq. lia.
Qed.
Lemma all_bits_nodup nbits : NoDup (map N.of_nat (seq 0 nbits)).
Proof. apply FinFun.Injective_map_NoDup; [intros a b E; lia|apply seq_NoDup]. Qed.
Lemma set_bits_spec nbits t i : In i (set_bits nbits t) <-> N.testbit t i = true /\ i < N.of_nat nbits.
Proof. unfold set_bits. rewrite filter_In, all_bits_spec. tauto. Qed.
Lemma between0 bits x : between bits 0 x <-> forall i, N.testbit x i = true -> In i bits.
Proof.
  unfold between, bsub. split.
  - intros [_ S2] i H. destruct (S2 i H) as [F|F]; [rewrite N.bits_0 in F; discriminate|exact F].
  - intros S. split; [intros i F; rewrite N.bits_0 in F; discriminate|intros i H; right; now apply S].
Qed.
(* the enumerator of the correspondence *)
Theorem is_tsm_spec n h P t : in_range (n * S h) t ->
  (is_tsm n h P t = true <-> tmodelb n h P t t = true /\ forall x, bsub x t -> x <> t -> tmodelb n h P x t = false).
Proof.
  intros R. unfold is_tsm. rewrite andb_true_iff, negb_true_iff. apply and_iff_compat_l.
  assert (NoDup (set_bits (n * S h) t)) as ND by (unfold set_bits; apply NoDup_filter, all_bits_nodup).
  split.
  - intros F x Sx Nx. destruct (tmodelb n h P x t) eqn:E; [|reflexivity]. exfalso.
    assert (exists_sub (set_bits (n * S h) t) 0 false (fun hh => tmodelb n h P hh t) = true) as Y; [|congruence].
    apply exists_sub_spec; [exact ND|intros b _; apply N.bits_0|].
    exists x. split; [apply between0; intros i H; apply set_bits_spec; split; [now apply Sx|apply R; now apply Sx]|]. split; [exact E|]. right.
    destruct (N.eq_dec x t) as [->|_]; [contradiction|].
    (* some bit of t is missing in x *)
    assert (exists i, N.testbit t i = true /\ N.testbit x i = false) as (i & Ht & Hx).
    { destruct (existsb (fun i => N.testbit t i && negb (N.testbit x i)) (set_bits (n * S h) t)) eqn:Ex.
      - apply existsb_exists in Ex as (i & _ & Hi). apply andb_true_iff in Hi as [Ha Hb]. exists i. split; [exact Ha|now apply negb_true_iff].
      - exfalso. apply Nx. apply N.bits_inj. intros i. destruct (N.testbit t i) eqn:Ht.
        + destruct (N.testbit x i) eqn:Hx; [reflexivity|]. exfalso.
          assert (existsb (fun i => N.testbit t i && negb (N.testbit x i)) (set_bits (n * S h) t) = true) as Z; [|congruence].
          apply existsb_exists. exists i. split; [apply set_bits_spec; split; [exact Ht|now apply R]|now rewrite Ht, Hx].
        + destruct (N.testbit x i) eqn:Hx; [|reflexivity]. apply Sx in Hx. congruence. }
    exists i. split; [apply set_bits_spec; split; [exact Ht|now apply R]|exact Hx].
  - intros Hall. destruct (exists_sub _ _ _ _) eqn:E; [|reflexivity]. exfalso.
    apply exists_sub_spec in E; [|exact ND|intros b _; apply N.bits_0].
    destruct E as (x & Hb & Hp & [F|(b & Hin & Hx)]); [discriminate|].
    rewrite (Hall x) in Hp; [discriminate| |].
    + intros i H. pose proof (proj1 (between0 _ _) Hb i H) as Hi. apply (proj1 (set_bits_spec _ _ _) Hi).
    + intros ->. apply set_bits_spec in Hin. destruct Hin. congruence.
Qed.
Theorem tsm_enum_spec n h P t : In t (tsm_enum n h P) <-> in_range (n * S h) t /\ is_tsm n h P t = true.
Proof.
  unfold tsm_enum. rewrite enum_spec. cbn [In]. rewrite between0. split.
  - intros [[]|[R Hp]]. split; [|exact Hp]. intros i H. apply all_bits_spec. now apply R.
  - intros [R Hp]. right. split; [|exact Hp]. intros i H. apply all_bits_spec. now apply R.
Qed.
(* no duplicates: every temporal stable model is listed once *)
Lemma enum_nodup p : forall bits acc out, NoDup bits -> (forall b, In b bits -> N.testbit acc b = false) -> NoDup out ->
  (forall x, In x out -> ~ between bits acc x) -> NoDup (enum bits acc p out).
Proof.
  induction bits as [|b r IH]; intros acc out ND Hacc NDo Hout; cbn [enum].
  - destruct (p acc); [|exact NDo]. constructor; [|exact NDo]. intros H. apply (Hout _ H). now apply between_nil.
  - inversion ND as [|? ? Hnin ND']; subst.
    assert (forall c, In c r -> N.testbit (N.lor acc (N.shiftl 1 b)) c = false) as Hacc'.
    { intros c Hc. rewrite setbit_spec, (Hacc c) by now right. cbn. apply N.eqb_neq. intros ->. contradiction. }
    apply IH; [exact ND'|intros c Hc; apply Hacc; now right| |].
    + apply IH; [exact ND'|exact Hacc'|exact NDo|]. intros x Hx Hb. apply (Hout x Hx). apply between_cons. now right.
    + intros x Hx Hb. apply enum_spec in Hx as [Hx|[Hb' _]].
      * apply (Hout x Hx). apply between_cons. now left.
      * (* x cannot both contain and not contain bit b *)
        destruct Hb' as [S1 _]. assert (N.testbit x b = true) as Y by (apply S1; rewrite setbit_spec, N.eqb_refl; apply orb_true_r).
        destruct Hb as [_ S2]. destruct (S2 b Y) as [Z|Z]; [rewrite (Hacc b (or_introl eq_refl)) in Z; discriminate|contradiction].
Qed.
Theorem tsm_enum_nodup n h P : NoDup (tsm_enum n h P).
Proof. unfold tsm_enum. apply enum_nodup; [apply all_bits_nodup|intros b _; apply N.bits_0|constructor|intros x []]. Qed.

(* ---------- from bit sets to traces: the enumerator decides temporal stable models over the finite universe ---------- *)
Local Close Scope N_scope.
Require Import TELext.
Section Traces.
Variables n h : nat.
Notation nbits := (n * S h).
(* the evaluators read the traces only at states <= h: extensionality *)
Lemma ds_ext2 (T1 T2 : LDL.trace nat) : (forall k a, k <= h -> T1 k a = T2 k a) ->
  forall p c c' k, k <= h -> (forall j, k <= j <= h -> c j = c' j) -> ds nat h T1 p c k = ds nat h T2 p c' k.
Proof.
  intros E p. induction p as [|t|p IHp q IHq|p IHp q IHq|p IHp]; intros c c' k Hk Ec; cbn [ds].
  - destruct (k <? h) eqn:L; cbn; [apply Ec; apply Nat.ltb_lt in L; lia|reflexivity].
  - rewrite (Ec k) by lia. destruct t as [a|b]; cbn [tval]; [now rewrite (E k a Hk)|reflexivity].
  - now rewrite (IHp c c' k Hk Ec), (IHq c c' k Hk Ec).
  - apply IHp; [exact Hk|]. intros j Hj. apply IHq; [lia|]. intros i Hi. apply Ec. lia.
  - generalize (S h - k). intros fuel. revert k Hk Ec. induction fuel as [|f IHf]; intros k Hk Ec.
    + now rewrite (Ec k) by lia.
    + rewrite (Ec k) by lia. f_equal. apply IHp; [exact Hk|]. intros j Hj. destruct (k <? j) eqn:L; cbn; [|reflexivity].
      apply IHf; [lia|]. intros i Hi. apply Ec. apply Nat.ltb_lt in L. lia.
Qed.
Lemma dsat_ext (T1 T2 : LDL.trace nat) : (forall k a, k <= h -> T1 k a = T2 k a) -> forall d k, k <= h -> dsat nat h T1 d k = dsat nat h T2 d k.
Proof.
  intros E d. induction d as [a|b| |p d IH|p d IH]; intros k Hk; cbn [dsat].
  - now apply E.
  - reflexivity.
  - reflexivity.
  - apply ds_ext2; [exact E|exact Hk|]. intros j Hj. apply IH. lia.
  - f_equal. apply ds_ext2; [exact E|exact Hk|]. intros j Hj. f_equal. apply IH. lia.
Qed.
Lemma prog_sat_ext (H1 T1 H2 T2 : TEL.trace nat) P : (forall k a, k <= h -> H1 k a = H2 k a) -> (forall k a, k <= h -> T1 k a = T2 k a) ->
  prog_sat h H1 T1 P = prog_sat h H2 T2 P.
Proof.
  intros EH ET. unfold prog_sat.
  assert (forall (X1 Y1 X2 Y2 : TEL.trace nat), (forall k a, k <= h -> X1 k a = X2 k a) -> (forall k a, k <= h -> Y1 k a = Y2 k a) ->
          forall k b, k <= h -> body_sat h X1 Y1 k b = body_sat h X2 Y2 k b) as EB.
  { intros X1 Y1 X2 Y2 EX EY k b Hk. unfold body_sat. induction b as [|[s l] r IH]; [reflexivity|]. cbn [forallb]. rewrite IH. f_equal.
    destruct l as [f|d]; cbn [lit_sat].
    - apply tsat_ext; assumption.
    - rewrite (dsat_ext Y1 Y2 EY d k Hk). reflexivity. }
  induction P as [|r P IH]; [reflexivity|]. cbn [forallb]. rewrite IH. f_equal.
  assert (forall l, (forall k, In k l -> k <= h) -> forallb (fun k => implb (admissible h (sp r) k) (rule_sat h H1 T1 k r)) l
                                                   = forallb (fun k => implb (admissible h (sp r) k) (rule_sat h H2 T2 k r)) l) as EL.
  { induction l as [|k l IHl]; intros Hl; [reflexivity|]. cbn [forallb]. rewrite IHl by (intros j Hj; apply Hl; now right). f_equal. f_equal.
    assert (k <= h) as Hk by (apply Hl; now left). unfold rule_sat.
    rewrite (EB H1 T1 H2 T2 EH ET k (sb r) Hk), (EB T1 T1 T2 T2 ET ET k (sb r) Hk).
    rewrite (tsat_ext nat h H1 T1 H2 T2 EH ET _ k Hk), (tsat_ext nat h T1 T1 T2 T2 ET ET _ k Hk). reflexivity. }
  apply EL. intros k Hk. apply in_seq in Hk. lia.
Qed.
(* bit sets within range <-> traces over atoms < n and states <= h *)
Definition of_trace (H : TEL.trace nat) : N :=
  fold_right (fun i acc => if H (i / n) (i mod n) then N.lor acc (N.shiftl 1 (N.of_nat i)) else acc) 0%N (seq 0 nbits).
Lemma fold_bits (H : TEL.trace nat) l j : N.testbit (fold_right (fun i acc => if H (i / n) (i mod n) then N.lor acc (N.shiftl 1 (N.of_nat i)) else acc) 0%N l) (N.of_nat j)
  = existsb (fun i => (i =? j) && H (i / n) (i mod n)) l.
Proof.
  induction l as [|i l IH]; cbn [fold_right existsb]; [apply N.bits_0|].
  destruct (H (i / n) (i mod n)) eqn:E.
  - rewrite setbit_spec, IH. rewrite andb_true_r. rewrite orb_comm. f_equal.
    destruct (Nat.eqb_spec i j) as [->|Ne]; [apply N.eqb_refl|]. apply N.eqb_neq. lia.
  - rewrite IH, andb_false_r. reflexivity.
Qed.
Lemma of_trace_bit H j : N.testbit (of_trace H) (N.of_nat j) = (j <? nbits) && H (j / n) (j mod n).
Proof.
  unfold of_trace. rewrite fold_bits. destruct (j <? nbits) eqn:L; cbn [andb].
  - apply Nat.ltb_lt in L. destruct (H (j / n) (j mod n)) eqn:E.
    + apply existsb_exists. exists j. split; [apply in_seq; lia|]. now rewrite Nat.eqb_refl, E.
    + destruct (existsb _ _) eqn:X; [|reflexivity]. apply existsb_exists in X as (i & _ & Hi). apply andb_true_iff in Hi as [Hi1 Hi2].
      apply Nat.eqb_eq in Hi1. subst. congruence.
  - apply Nat.ltb_ge in L. destruct (existsb _ _) eqn:X; [|reflexivity]. apply existsb_exists in X as (i & Hin & Hi). apply andb_true_iff in Hi as [Hi1 _].
    apply Nat.eqb_eq in Hi1. apply in_seq in Hin. lia.
Qed.
Lemma of_trace_range H : in_range nbits (of_trace H).
Proof.
  intros i Hi. replace i with (N.of_nat (N.to_nat i)) in Hi by lia. rewrite of_trace_bit in Hi. apply andb_true_iff in Hi as [L _]. apply Nat.ltb_lt in L. lia.
Qed.
Lemma index_inv k a : a < n -> (k * n + a) / n = k /\ (k * n + a) mod n = a.
Proof.
  intros Ha. split.
  - rewrite Nat.div_add_l by lia. rewrite Nat.div_small by exact Ha. lia.
  - rewrite Nat.add_comm, Nat.mod_add by lia. now apply Nat.mod_small.
Qed.
Lemma tr_of_bit t k a : a < n -> tr_of n t k a = N.testbit t (N.of_nat (k * n + a)).
Proof. intros Ha. unfold tr_of. now apply Nat.ltb_lt in Ha as ->. Qed.
Lemma tr_of_out t k a : n <= a -> tr_of n t k a = false.
Proof. intros Ha. unfold tr_of. now apply Nat.ltb_ge in Ha as ->. Qed.
Lemma tr_of_range t k a : in_range nbits t -> tr_of n t k a = true -> k <= h /\ a < n.
Proof.
  intros R E. destruct (Nat.lt_ge_cases a n) as [Ha|Ha]; [|rewrite tr_of_out in E by exact Ha; discriminate]. split; [|exact Ha].
  rewrite tr_of_bit in E by exact Ha. apply R in E. assert (k * n + a < n * S h) by lia. nia.
Qed.
Lemma tr_of_of_trace H t : in_range nbits t -> (forall k a, H k a = true -> tr_of n t k a = true) -> forall k a, tr_of n (of_trace H) k a = H k a.
Proof.
  intros R Le k a. destruct (Nat.lt_ge_cases a n) as [Ha|Ha].
  - rewrite tr_of_bit, of_trace_bit by exact Ha. destruct (index_inv k a Ha) as [-> ->].
    destruct (H k a) eqn:E; [|apply andb_false_r]. rewrite andb_true_r. apply Nat.ltb_lt.
    destruct (tr_of_range t k a R (Le k a E)) as [Hk _]. nia.
  - rewrite tr_of_out by exact Ha. destruct (H k a) eqn:E; [|reflexivity]. apply Le in E. rewrite tr_of_out in E by exact Ha. discriminate.
Qed.
(* temporal stable models over the finite universe, in terms of traces *)
Definition tsm_fin (P : list srule) (T : TEL.trace nat) : Prop :=
  prog_sat h T T P = true /\
  forall H : TEL.trace nat, (forall k a, H k a = true -> T k a = true) -> (exists k a, T k a = true /\ H k a = false) -> prog_sat h H T P = false.
Theorem is_tsm_is_tsm_fin P t : in_range nbits t -> (is_tsm n h P t = true <-> tsm_fin P (tr_of n t)).
Proof.
  intros R. rewrite (is_tsm_spec n h P t R). unfold tmodelb, tsm_fin. apply and_iff_compat_l. split.
  - intros Hall H Le (k & a & Ht & Hh).
    rewrite <- (prog_sat_ext (tr_of n (of_trace H)) (tr_of n t) H (tr_of n t) P); [|intros; now apply (tr_of_of_trace H t R Le)|reflexivity].
    apply Hall.
    + intros i Hi. replace i with (N.of_nat (N.to_nat i)) in * by lia. set (j := N.to_nat i) in *. rewrite of_trace_bit in Hi.
      apply andb_true_iff in Hi as [L Hj]. apply Nat.ltb_lt in L. assert (0 < n) as Hn by nia.
      apply Le in Hj. rewrite tr_of_bit in Hj by (apply Nat.mod_upper_bound; lia).
      replace (j / n * n + j mod n) with j in Hj; [exact Hj|]. rewrite Nat.mul_comm. apply Nat.div_mod_eq.
    + intros Eq. destruct (tr_of_range t k a R Ht) as [Hk Ha]. rewrite <- Eq in Ht. rewrite (tr_of_of_trace H t R Le) in Ht. congruence.
  - intros Hall x Sx Nx. apply Hall.
    + intros k a E. destruct (Nat.lt_ge_cases a n) as [Ha|Ha]; [|rewrite tr_of_out in E by exact Ha; discriminate].
      rewrite tr_of_bit in * by exact Ha. now apply Sx.
    + (* a bit of t that x lacks *)
      assert (exists i, N.testbit t i = true /\ N.testbit x i = false) as (i & Hti & Hxi).
      { destruct (existsb (fun i => N.testbit t i && negb (N.testbit x i)) (set_bits nbits t)) eqn:Ex.
        - apply existsb_exists in Ex as (i & _ & Hi). apply andb_true_iff in Hi as [Ha Hb]. exists i. split; [exact Ha|now apply negb_true_iff].
        - exfalso. apply Nx. apply N.bits_inj. intros i. destruct (N.testbit t i) eqn:Hti.
          + destruct (N.testbit x i) eqn:Hxi; [reflexivity|]. exfalso.
            assert (existsb (fun i => N.testbit t i && negb (N.testbit x i)) (set_bits nbits t) = true) as Z; [|congruence].
            apply existsb_exists. exists i. split; [apply set_bits_spec; split; [exact Hti|now apply R]|now rewrite Hti, Hxi].
          + destruct (N.testbit x i) eqn:Hxi; [|reflexivity]. apply Sx in Hxi. congruence. }
      pose proof (R i Hti) as Ri. assert (exists j, i = N.of_nat j /\ j < nbits) as (j & -> & Hj) by (exists (N.to_nat i); split; lia). assert (0 < n) as Hn by nia.
      exists (j / n), (j mod n). rewrite !tr_of_bit by (apply Nat.mod_upper_bound; lia).
      replace (j / n * n + j mod n) with j; [now split|]. rewrite Nat.mul_comm. apply Nat.div_mod_eq.
Qed.
(* the oracle of the correspondence: exactly the temporal stable models, each once *)
Theorem tsm_enum_correct P t : In t (tsm_enum n h P) <-> in_range nbits t /\ tsm_fin P (tr_of n t).
Proof.
  rewrite tsm_enum_spec. split; intros [R Ht]; (split; [exact R|]); now apply (is_tsm_is_tsm_fin P t R).
Qed.
End Traces.
