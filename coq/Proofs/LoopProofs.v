(* The solving loop: closed form of the call trace of Model/Loop.v and the C08 facts. *)
Require Import GenPrelude FromSource Loop Leaf_imain.
Local Open Scope list_scope.
Section Run.
Variables (imax : option nat) (imin : nat) (istop : stopc).
Variable parts : list ppart.
Variable res : nat -> result.
Variable future : nat -> list nat.
Notation goes := (goes imax imin istop res).
Notation stops := (stops istop).
Notation below_max := (below_max imax).
(* declarative selection of parts *)
Definition sel_rng_spec (r : root) (name : string) (s : nat) (rng : list nat) : list (string * Z * Z) :=
  map (fun i => (name, (Z.of_nat s - Z.of_nat i)%Z, Z.of_nat s)) (filter (part_sel r s) rng).
Definition sel_parts_spec (ps : list ppart) (s : nat) : list (string * Z * Z) :=
  flat_map (fun p : ppart => let '(r, name, rng) := p in sel_rng_spec r name s rng) ps.
Lemma sel_rng_ok r name s rng : sel_rng r name s rng = Some (sel_rng_spec r name s rng).
Proof.
  induction rng as [|i rest IH]; [reflexivity|]. cbn [sel_rng]. rewrite part_selected_gen_spec, part_params_gen_spec, IH.
  unfold sel_rng_spec. cbn [filter]. destruct (part_sel r s i); reflexivity.
Qed.
Lemma sel_parts_ok ps s : sel_parts ps s = Some (sel_parts_spec ps s).
Proof.
  induction ps as [|[[r name] rng] rest IH]; [reflexivity|]. cbn [sel_parts sel_parts_spec flat_map].
  rewrite sel_rng_ok, IH. reflexivity.
Qed.
Lemma sel_assume_ok s ts : sel_assume s ts = Some (filter (fun t => s <? t) ts).
Proof.
  induction ts as [|t rest IH]; [reflexivity|]. cbn [sel_assume filter]. rewrite assume_false_gen_spec, IH.
  destruct (s <? t); reflexivity.
Qed.
(* the events of one step: independent of imin/imax/istop and of all solve results *)
Definition step_events (n : nat) : list event :=
  (if 0 <? n then [EvRelease (Z.of_nat n - 1); EvCleanup] else [])
  ++ [EvGround (sel_parts_spec parts n); EvTranslate n; EvAssign (Z.of_nat n) true; EvSolve n (filter (fun t => n <? t) (future n))].
Lemma body_events_ok n : body_events parts future n (loop_body_gen n) = Some (step_events n, Some (S n)).
Proof.
  unfold body_events, step_events. rewrite loop_body_gen_spec.
  destruct (0 <? n); cbn [app call_events]; rewrite sel_parts_ok, sel_assume_ok;
    replace (Z.to_nat (Z.of_nat n + 1)) with (S n) by lia; reflexivity.
Qed.
(* number of iterations within fuel: length of the longest prefix on which [goes] holds *)
Fixpoint count (fuel n : nat) : nat := match fuel with 0 => 0 | S f => if goes n then S (count f (S n)) else 0 end.
Lemma run_gen fuel : forall n acc,
  run imax imin istop parts res future fuel n (prev_of res n) acc = Steps (acc ++ flat_map step_events (seq n (count fuel n))).
Proof.
  induction fuel as [|f IH]; intros n acc; cbn [run count].
  - cbn. now rewrite app_nil_r.
  - rewrite loop_cond_gen_spec. destruct (goes n).
    + rewrite body_events_ok. change (Some (res n)) with (prev_of res (S n)). rewrite IH. cbn [seq flat_map].
      now rewrite <- app_assoc.
    + cbn. now rewrite app_nil_r.
Qed.
Theorem run_closed_form fuel : imain_run imax imin istop parts res future fuel = Steps (flat_map step_events (seq 0 (count fuel 0))).
Proof. exact (run_gen fuel 0 []). Qed.
Lemma solves_step n : solves (step_events n) = [n].
Proof. unfold step_events. destruct (0 <? n); reflexivity. Qed.
Lemma solves_flat l : solves (flat_map step_events l) = l.
Proof.
  induction l as [|n l IH]; [reflexivity|]. cbn [flat_map]. unfold solves in *. rewrite flat_map_app.
  fold (solves (step_events n)). rewrite solves_step, IH. reflexivity.
Qed.
Lemma count_le fuel n : count fuel n <= fuel.
Proof. revert n; induction fuel as [|f IH]; intros n; cbn [count]; [lia|]. destruct (goes n); [specialize (IH (S n))|]; lia. Qed.
Lemma count_goes fuel : forall n k, k < count fuel n -> goes (n + k) = true.
Proof.
  induction fuel as [|f IH]; intros n k Hk; cbn [count] in Hk; [lia|].
  destruct (goes n) eqn:G; [|lia]. destruct k as [|k]; [now rewrite Nat.add_0_r|].
  replace (n + S k) with (S n + k) by lia. apply IH. lia.
Qed.
Lemma count_stop fuel : forall n, count fuel n < fuel -> goes (n + count fuel n) = false.
Proof.
  induction fuel as [|f IH]; intros n Hk; cbn [count] in *; [lia|].
  destruct (goes n) eqn:G; [|now rewrite Nat.add_0_r].
  replace (n + S (count f (S n))) with (S n + count f (S n)) by lia. apply IH. lia.
Qed.
Lemma count_max m fuel : imax = Some m -> count fuel 0 <= m.
Proof.
  intros E. destruct (Nat.le_gt_cases (count fuel 0) m) as [|H]; [assumption|exfalso].
  assert (goes (0 + m) = true) as G by (apply (count_goes fuel); lia).
  unfold Leaf_imain.goes, Leaf_imain.below_max in G. rewrite E in G. apply andb_true_iff in G as [G _]. apply Nat.ltb_lt in G. lia.
Qed.
Lemma count_ge d : forall f n, (forall j, n <= j < n + d -> goes j = true) -> d <= f -> d <= count f n.
Proof.
  induction d as [|d IH]; intros f n Hg Hf; [lia|].
  destruct f as [|f]; [lia|]. cbn [count]. rewrite (Hg n) by lia.
  apply le_n_S. apply IH; [|lia]. intros j Hj. apply Hg. lia.
Qed.
Lemma count_min fuel d : (forall j, j < d -> below_max j = true) -> d <= imin -> d <= fuel -> d <= count fuel 0.
Proof.
  intros Hb Hd Hf. apply count_ge; [|assumption]. intros j Hj. unfold Leaf_imain.goes. rewrite Hb by lia. cbn [andb].
  destruct j as [|j]; [reflexivity|]. assert (S j <? imin = true) as -> by (apply Nat.ltb_lt; lia). now rewrite orb_true_r.
Qed.
Lemma count_min_imax fuel m : imax = Some m -> Nat.min imin m <= fuel -> Nat.min imin m <= count fuel 0.
Proof.
  intros E Hf. apply count_min; [|lia|assumption]. intros j Hj. unfold Leaf_imain.below_max. rewrite E. apply Nat.ltb_lt. lia.
Qed.
Lemma count_first_stop fuel : count fuel 0 < fuel -> let n := count fuel 0 in
  below_max n = false \/ (n <> 0 /\ imin <= n /\ stops (res (n-1)) = true).
Proof.
  intros Hlt n. pose proof (count_stop fuel 0 Hlt) as G. cbn [Nat.add] in G. fold n in G.
  unfold Leaf_imain.goes in G. destruct (below_max n); [right|left; reflexivity]. cbn [andb] in G.
  apply orb_false_iff in G as [G1 G3]. apply orb_false_iff in G1 as [G1 G2].
  apply Nat.eqb_neq in G1. apply Nat.ltb_ge in G2. apply negb_false_iff in G3. auto.
Qed.
Lemma count_no_early_stop fuel k : k < count fuel 0 -> k <> 0 -> imin <= k -> stops (res (k-1)) = false.
Proof.
  intros Hk H0 Hm. pose proof (count_goes fuel 0 k Hk) as G. cbn [Nat.add] in G. unfold Leaf_imain.goes in G.
  apply andb_true_iff in G as [_ G]. apply orb_true_iff in G as [G|G]; [apply orb_true_iff in G as [G|G]|].
  - apply Nat.eqb_eq in G; lia. - apply Nat.ltb_lt in G; lia. - now apply negb_true_iff in G.
Qed.
(* the loop stops at a step k>=1 only if the previous result matches the criterion or imax is reached; a satisfiable
   result at horizon k-1 under the default criterion means every earlier horizon >= imin was unsatisfiable/unknown *)
End Run.
